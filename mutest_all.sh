#!/bin/bash
# usage: mutest_all.sh <glob over /verif/seeded, e.g. '*-r2-*'> [extra props per id via EXTRA_<id>]
# Runs every stored change against the quick check of the property it was written for (plus the
# fallbacks listed below when that misses) and records the result in its meta.json ("caught_by").
cd /verif
declare -A FALLBACK=( [C08-r2-m2]="thorough:C08" [C11-r2-m2]="quick:C17" [C11-m1]="quick:C05" )
for d in seeded/$1; do
  id=$(basename $d); p=${id%%-*}
  [ -f $d/patch.diff ] || continue
  if [ -z "$FORCE" ] && grep -q '"caught_by"' $d/meta.json; then continue; fi
  res=$(timeout 3000 ./mutest.sh /verif/$d/patch.diff $p 2>&1 | tail -1)
  if ! echo "$res" | grep -q "^CAUGHT"; then
    fb=${FALLBACK[$id]}
    if [ -n "$fb" ]; then
      res2=$(MUTEST_TIER=${fb%%:*} timeout 6000 ./mutest.sh /verif/$d/patch.diff ${fb##*:} 2>&1 | tail -1)
      res="$res || ${fb%%:*} $res2"
    fi
  fi
  echo "$id: $res" | cut -c1-400
  python3 - "$d" "$res" <<'PY'
import sys, json
d, res = sys.argv[1:]
m = json.load(open(d + "/meta.json"))
m["caught_by"] = res[:600]
json.dump(m, open(d + "/meta.json", "w"), indent=1)
PY
done
