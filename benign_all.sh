#!/bin/bash
# usage: benign_all.sh <dir with B*.diff> -- applies each property-preserving change to /repo, runs the listed
# quick checks, reverts. Any VIOLATION or harness error here is a false alarm of the framework.
declare -A WHICH=(
 [B1_rebuild_pop_last]="C01 C02 C08 C09 C12 C13 C14 C20 C07"
 [B2_fresh_step_two]="C17 C11 C20 C06 C03"
 [B3_ematch_reverse]="C04 C05 C03 C15 C20 C07"
 [B4_merge_tie_strict]="C12 C13 C07 C02 C14"
 [B5_no_path_compression]="C13 C08 C07 C01"
 [B6_preshape_max]="C09 C01 C02 C08 C11 C05 C04"
 [B7_extractor_seed_reverse]="C06 C13 C03 C11 C20"
 [B8_touched_sorted]="C02 C12 C14 C08"
 [B9_group_highest_nonstab]="C10 C11 C01 C02 C05"
 [B10_enodes_sorted]="C03 C05 C06 C14 C08 C20"
 [B11_appliers_reverse]="C03 C04 C15 C07 C14"
 [B12_substs_reverse]="C03 C04 C15 C07"
 [B13_eq_double_find]="C01 C13"
)
D=${1:-/verif/benign}
cd /repo || exit 2
for f in $D/B*.diff; do
  n=$(basename $f .diff)
  [ -n "$ONLY" ] && [ "$ONLY" != "$n" ] && continue
  if [ -n "$(git status --porcelain -- src slotted-egraphs-derive)" ]; then echo "repo dirty"; exit 2; fi
  git apply "$f" || { echo "$n: PATCH DOES NOT APPLY"; continue; }
  for p in ${WHICH[$n]:-C01 C02 C08}; do
    out=$(cd /verif && ./check $p quick 2>&1); code=$?
    if [ $code -eq 0 ]; then echo "$n $p: quiet";
    else echo "$n $p: ALARM exit=$code $(echo "$out" | grep -E '^violation:|HARNESS' | head -2 | cut -c1-300)"; 
      mkdir -p /tmp/benign_alarms; echo "$out" > /tmp/benign_alarms/$n.$p.log; cp -r /verif/replays /tmp/benign_alarms/replays_$n.$p 2>/dev/null; fi
  done
  git checkout -- src slotted-egraphs-derive
  cd /verif && git checkout -- evidence 2>/dev/null; git clean -fdq replays 2>/dev/null; cd /repo
done
