//! The `sess` engine: one real e-graph driven through its public API by an explicit trace,
//! with the history the checkers need (tracked terms, first handles, asserted equations).

use crate::exec::{catch, PanicInfo};
use crate::langs::*;
use crate::rng::{self, Rng};
use crate::run::*;
use crate::tm::*;
use slotted_egraphs::*;
use std::collections::{BTreeMap, HashMap};

#[derive(Clone)]
pub struct Tracked {
    pub tm: Tm,
    /// handle returned when the term was first inserted
    pub h: AppliedId,
    pub at_op: usize,
}

pub struct Sess<L: SimLang, N: Analysis<L>> {
    pub eg: EGraph<L, N>,
    pub nm: Naming,
    pub tracked: Vec<Tracked>,
    pub by_exact: HashMap<Tm, usize>,
    pub by_canon: HashMap<Tm, usize>,
    pub eqs: Vec<(Tm, Tm)>,
    pub log_hash: u64,
    pub cur_op: usize,
    /// a second e-graph of the same language living in the same thread (knob `companion`): it gets the
    /// same insertions (hence the same class ids, shapes and slot names) but other equations, interleaved
    /// with the run's operations. Nothing of it is ever compared; it exists so that state which wrongly
    /// outlives or crosses an e-graph (a per-thread or process-wide cache) meets a second user.
    pub companion: Option<EGraph<L, N>>,
    /// the companion repeats the run's unions literally (rw engine: every equation has to stay model-valid)
    pub companion_same_unions: bool,
}

impl<L: SimLang, N: Analysis<L>> Sess<L, N> {
    pub fn new(eg: EGraph<L, N>, naming: u32) -> Self {
        Sess {
            eg,
            nm: Naming::new(naming),
            tracked: Vec::new(),
            by_exact: HashMap::new(),
            by_canon: HashMap::new(),
            eqs: Vec::new(),
            log_hash: 0,
            cur_op: 0,
            companion: None,
            companion_same_unions: false,
        }
    }

    /// Creates the companion e-graph (same language, same analysis value).
    pub fn enable_companion(&mut self)
    where
        N: Clone,
    {
        self.companion = Some(EGraph::new(self.eg.analysis.clone()));
    }

    /// Mirrors one op of the trace on the companion e-graph: `add` literally, `union` with a
    /// different right side (an earlier tracked term), so that its equalities differ from the run's.
    pub fn companion_op(&mut self, op: &Op) {
        let Some(mut c) = self.companion.take() else { return };
        match op.name.as_str() {
            "add" => {
                let re = to_re::<L>(&op.t[0], &mut self.nm);
                let h = c.add_expr(re);
                self.log(&format!("companion add -> {h:?}"));
            }
            "union" => {
                let other = if self.tracked.is_empty() || self.companion_same_unions {
                    op.t[1].clone()
                } else {
                    self.tracked[(self.cur_op * 7 + 3) % self.tracked.len()].tm.clone()
                };
                let ra = to_re::<L>(&op.t[0], &mut self.nm);
                let rb = to_re::<L>(&op.t[1], &mut self.nm);
                let ro = to_re::<L>(&other, &mut self.nm);
                let ha = c.add_expr(ra);
                let _ = c.add_expr(rb);
                let ho = c.add_expr(ro);
                let r = c.union(&ha, &ho);
                let e = c.eq(&ha, &ho);
                self.log(&format!("companion union -> {r} {e}"));
            }
            "probe" => {
                let p = c.progress();
                self.log(&format!("companion progress {} {}", p.number_of_live_classes, p.sum_of_slots));
            }
            _ => {}
        }
        self.companion = Some(c);
    }

    pub fn log(&mut self, s: &str) {
        self.log_hash = rng::mix(self.log_hash ^ rng::hash_str(s));
    }

    fn record(&mut self, tm: &Tm, h: AppliedId) {
        let idx = self.tracked.len();
        self.log(&format!("track {tm} -> {h:?}"));
        self.tracked.push(Tracked { tm: tm.clone(), h, at_op: self.cur_op });
        self.by_exact.insert(tm.clone(), idx);
        self.by_canon.entry(tm.canon().0).or_insert(idx);
    }

    /// Inserts `t` (every not yet tracked subterm separately, bottom-up) and returns the root's
    /// handle. `nodewise`: build each node with `add` from child handles instead of `add_expr`.
    pub fn add_term(&mut self, t: &Tm, nodewise: bool) -> AppliedId {
        for sub in t.subterms_bottom_up() {
            if self.by_exact.contains_key(&sub) {
                continue;
            }
            let h = if nodewise {
                let mut node = L::mk(&sub, &mut self.nm);
                let kids: Vec<AppliedId> =
                    sub.kids.iter().map(|k| self.tracked[self.by_exact[&k.t]].h.clone()).collect();
                for (r, k) in node.applied_id_occurrences_mut().into_iter().zip(kids.into_iter()) {
                    // the recorded handle may be stale; add() canonicalises it
                    *r = k;
                }
                self.eg.add(node)
            } else {
                let re = to_re::<L>(&sub, &mut self.nm);
                self.eg.add_expr(re)
            };
            self.record(&sub, h);
        }
        self.tracked[self.by_exact[t]].h.clone()
    }

    /// fresh insertion of the whole term through add_expr (no tracking side effects)
    pub fn re_add(&mut self, t: &Tm) -> AppliedId {
        let re = to_re::<L>(t, &mut self.nm);
        let h = self.eg.add_expr(re);
        self.log(&format!("readd {t} -> {h:?}"));
        h
    }

    /// handle of instance rho.tracked[idx] (rho total on the free slots of the tracked term)
    pub fn handle_inst(&mut self, idx: usize, rho: &BTreeMap<S, S>) -> AppliedId {
        let h = self.tracked[idx].h.clone();
        let m = self.nm.slotmap(rho);
        h.apply_slotmap_partial(&m)
    }

    /// handle for any term whose canonical form is tracked
    pub fn handle_of(&mut self, t: &Tm) -> Option<AppliedId> {
        if let Some(i) = self.by_exact.get(t) {
            return Some(self.tracked[*i].h.clone());
        }
        let (c, args_t) = t.canon();
        let idx = *self.by_canon.get(&c)?;
        let (_, args0) = self.tracked[idx].tm.canon();
        let rho: BTreeMap<S, S> = args0.iter().copied().zip(args_t.iter().copied()).collect();
        Some(self.handle_inst(idx, &rho))
    }

    pub fn union_terms(&mut self, a: &Tm, b: &Tm, old_handles: bool, nodewise: bool) -> bool {
        let (ha, hb) = if old_handles {
            (self.add_term(a, nodewise), self.add_term(b, nodewise))
        } else {
            self.add_term(a, nodewise);
            self.add_term(b, nodewise);
            (self.re_add(a), self.re_add(b))
        };
        let r = self.eg.union(&ha, &hb);
        self.eqs.push((a.clone(), b.clone()));
        self.log(&format!("union {a} = {b} -> {r}"));
        r
    }

    /// abstract names of the slots the e-graph currently keeps for tracked term idx
    pub fn kept_slots(&mut self, idx: usize) -> Vec<S> {
        let h = self.tracked[idx].h.clone();
        let f = self.eg.find_applied_id(&h);
        let mut out: Vec<S> = Vec::new();
        for s in f.slots().iter() {
            match self.nm.known(*s) {
                Some(x) => out.push(x),
                None => out.push(self.nm.unslot(*s)),
            }
        }
        out.sort();
        out
    }
}

// ---- K3 probes: read-only calls ------------------------------------------------------------

/// Executes read-only API calls on the tracked handles (drives path compression).
pub fn run_probes<L: SimLang, N: Analysis<L>>(s: &mut Sess<L, N>, kind: i64, seed: u64) {
    let mut rng = Rng::stream(seed, "probe");
    let n = s.tracked.len();
    if n == 0 {
        return;
    }
    match kind.rem_euclid(9) {
        0 => {
            for i in 0..n {
                let h = s.tracked[i].h.clone();
                let f = s.eg.find_applied_id(&h);
                s.log(&format!("find {f:?}"));
            }
        }
        1 => {
            for _ in 0..n.min(8) {
                let a = s.tracked[rng.below(n)].h.clone();
                let b = s.tracked[rng.below(n)].h.clone();
                let r = s.eg.eq(&a, &b);
                s.log(&format!("eq {r}"));
            }
        }
        2 => {
            let ids = s.eg.ids();
            for id in ids {
                let e = s.eg.enodes(id);
                let sl = s.eg.slots(id);
                s.log(&format!("enodes {} {}", e.len(), sl.len()));
            }
        }
        3 => {
            for i in 0..n.min(8) {
                let t = s.tracked[rng.below(n)].tm.clone();
                let _ = i;
                let re = to_re::<L>(&t, &mut s.nm);
                let r = lookup_rec_expr(&re, &s.eg);
                s.log(&format!("lookup {}", r.is_some()));
            }
        }
        4 => {
            let p = s.eg.progress();
            s.log(&format!(
                "progress {} {} {} {}",
                p.number_of_classes, p.number_of_live_classes, p.sum_of_slots, p.sum_of_symmetries
            ));
        }
        5 => {
            s.eg.check();
        }
        6 => {
            for i in 0..n {
                let id = s.tracked[i].h.id;
                let a = s.eg.is_alive(id);
                s.log(&format!("alive {a}"));
            }
        }
        7 => {
            let t = s.eg.total_number_of_nodes();
            s.log(&format!("nodes {t}"));
        }
        _ => {
            // extraction is a reader too (C08: "rewriting and extraction complete without panicking")
            let ex = Extractor::<L, AstSize>::new(&s.eg, AstSize);
            for i in 0..n.min(4) {
                let h = s.tracked[rng.below(n)].h.clone();
                let _ = i;
                // every class of a history was created from an inserted (finite) term
                let re = ex.extract(&h, &s.eg);
                s.log(&format!("extract {re:?}"));
            }
        }
    }
}

// ---- C08 structural clauses ----------------------------------------------------------------

/// API-level consistency clauses of C08. Returns Err(clause, detail).
pub fn c08_structure<L: SimLang, N: Analysis<L>>(s: &mut Sess<L, N>) -> Result<(), (String, String)> {
    s.eg.check();
    let ids = s.eg.ids();
    let mut seen: HashMap<L, Id> = HashMap::new();
    for id in &ids {
        let cs = s.eg.slots(*id);
        for n in s.eg.enodes(*id) {
            match s.eg.lookup(&n) {
                None => return Err(("enode_lookup".into(), format!("{n:?} of {id:?} not found by lookup"))),
                Some(a) => {
                    if a.id != *id {
                        return Err((
                            "enode_lookup".into(),
                            format!("{n:?} of {id:?} looks up to {:?}", a.id),
                        ));
                    }
                }
            }
            let ns = n.slots();
            for x in cs.iter() {
                if !ns.contains(x) {
                    return Err((
                        "enode_slots".into(),
                        format!("{n:?} of {id:?} lacks class slot {x:?}"),
                    ));
                }
            }
            let (sh, _) = n.weak_shape();
            if let Some(o) = seen.insert(sh, *id) {
                if o != *id {
                    return Err(("node_in_two_classes".into(), format!("{n:?} in {o:?} and {id:?}")));
                }
            }
        }
    }
    for i in 0..s.tracked.len() {
        let h = s.tracked[i].h.clone();
        let f = s.eg.find_applied_id(&h);
        let ff = s.eg.find_applied_id(&f);
        if f != ff {
            return Err(("find_idempotent".into(), format!("find({h:?}) = {f:?}, find again = {ff:?}")));
        }
        if !s.eg.is_alive(f.id) {
            return Err(("find_idempotent".into(), format!("find({h:?}) = {f:?} is not alive")));
        }
    }
    Ok(())
}

pub fn panic_violation(property: &str, clause: &str, p: &PanicInfo, at_op: usize) -> Violation {
    let kind = if p.msg.contains("fuel exhausted") { "fuel" } else { "panic" };
    Violation {
        property: property.into(),
        clause: clause.into(),
        kind: kind.into(),
        sig: format!("{}|{}|{}", p.norm_msg(), p.file(), p.func),
        triggers: vec![],
        detail: format!("{} at {} in {}", p.msg.lines().next().unwrap_or(""), p.loc, p.func),
        at_op,
    }
}

// ---- generator for sess histories ----------------------------------------------------------

pub struct GenParams {
    /// number of user slots
    pub alphabet: usize,
    /// max free slots per term (including bound names in bodies)
    pub max_free: usize,
    pub max_depth: usize,
    pub max_ops: usize,
    /// leaves up to p<k>
    pub max_leaf: usize,
    pub binders: bool,
}

pub struct TermGen<'a> {
    pub rng: &'a mut Rng,
    pub p: &'a GenParams,
    /// next binder name (binder names start at alphabet and are reused cyclically)
    pub next_binder: S,
}

impl<'a> TermGen<'a> {
    fn binder_name(&mut self) -> S {
        let b = self.p.alphabet as S + (self.next_binder % 3);
        self.next_binder += 1;
        b
    }

    fn pick_slots(&mut self, k: usize, scope: &[S], allow_repeat: bool) -> Vec<S> {
        let mut out = Vec::new();
        for _ in 0..k {
            let mut tries = 0;
            loop {
                let s = *self.rng.pick(scope);
                tries += 1;
                if allow_repeat || !out.contains(&s) || tries > 20 {
                    out.push(s);
                    break;
                }
            }
        }
        out
    }

    pub fn leaf(&mut self, scope: &[S]) -> Tm {
        if scope.is_empty() || self.rng.chance(1, 6) {
            return Tm::pay("k", self.rng.below(3) as u32);
        }
        let k = if self.p.max_leaf > 4 {
            // wide mode: leaves with up to six slots
            1 + self.rng.weighted(&[1, 2, 3, 3, 4, 5][..self.p.max_leaf.min(6)])
        } else {
            let maxk = self.p.max_leaf.min(4);
            1 + self.rng.weighted(&[3, 5, 4, 1][..maxk])
        };
        let repeat = self.rng.chance(1, 8);
        let k_eff = if repeat { k } else { k.min(scope.len()) };
        let slots = self.pick_slots(k_eff, scope, repeat);
        Tm::leaf(&format!("p{k_eff}"), slots)
    }

    /// random term whose free slots are within `scope` (|scope| <= max_free)
    pub fn term(&mut self, depth: usize, scope: &[S]) -> Tm {
        if depth <= 1 || self.rng.chance(1, 3) {
            return self.leaf(scope);
        }
        let w: &[u32] = if self.p.binders { &[3, 5, 3, 4, 2, 1, 1, 1] } else { &[3, 5, 3, 0, 0, 0, 1, 0] };
        match self.rng.weighted(w) {
            7 => {
                let a = self.term(depth - 1, scope);
                let (x, inner) = self.enter_binder(scope);
                Tm::node("h", vec![], vec![(vec![], a), (vec![x], self.term(depth - 1, &inner))])
            }
            6 => {
                let a = self.term(depth - 1, scope);
                let b = if self.rng.chance(1, 3) { a.clone() } else { self.term(depth - 1, scope) };
                let c = self.leaf(scope);
                Tm::node("t", vec![], vec![(vec![], a), (vec![], b), (vec![], c)])
            }
            0 => Tm::node("u", vec![], vec![(vec![], self.term(depth - 1, scope))]),
            1 => {
                let a = self.term(depth - 1, scope);
                let b = self.term(depth - 1, scope);
                Tm::node("b", vec![], vec![(vec![], a), (vec![], b)])
            }
            2 => {
                if scope.is_empty() {
                    return self.leaf(scope);
                }
                let s = *self.rng.pick(scope);
                // (no extra draw) a third of these nodes have the child before the slot
                let name = if (s as usize + depth) % 3 == 0 { "gr" } else { "g" };
                Tm::node(name, vec![s], vec![(vec![], self.term(depth - 1, scope))])
            }
            3 => {
                let (x, inner) = self.enter_binder(scope);
                Tm::node("lam", vec![], vec![(vec![x], self.term(depth - 1, &inner))])
            }
            4 => {
                let (x, inner) = self.enter_binder(scope);
                let body = self.term(depth - 1, &inner);
                // usually the bound value does not mention a slot named like the binder; sometimes
                // it does (the same name bound in one child and free in a sibling child)
                let keep_x = self.rng.chance(1, 4);
                let outer: Vec<S> = scope.iter().copied().filter(|s| keep_x || *s != x).collect();
                let e = self.term(depth - 1, &outer);
                Tm::node("let", vec![], vec![(vec![x], body), (vec![], e)])
            }
            _ => {
                let (x, inner) = self.enter_binder(scope);
                let (y, inner2) = self.enter_binder(&inner);
                if x == y {
                    return Tm::node("lam", vec![], vec![(vec![x], self.term(depth - 1, &inner))]);
                }
                Tm::node("lam2", vec![], vec![(vec![x, y], self.term(depth - 1, &inner2))])
            }
        }
    }

    /// new scope under a binder: binder name added, scope trimmed to max_free names
    fn enter_binder(&mut self, scope: &[S]) -> (S, Vec<S>) {
        // occasionally shadow a name of the scope
        let x = if !scope.is_empty() && self.rng.chance(1, 10) { *self.rng.pick(scope) } else { self.binder_name() };
        let mut inner: Vec<S> = scope.iter().copied().filter(|s| *s != x).collect();
        while inner.len() + 1 > self.p.max_free {
            let i = self.rng.below(inner.len());
            inner.remove(i);
        }
        inner.push(x);
        (x, inner)
    }
}

fn perm_of(rng: &mut Rng, free: &[S]) -> BTreeMap<S, S> {
    let k = free.len();
    let mut m = BTreeMap::new();
    if k < 2 {
        return m;
    }
    match rng.below(4) {
        0 => {
            // transposition
            let i = rng.below(k);
            let mut j = rng.below(k);
            if i == j {
                j = (j + 1) % k;
            }
            m.insert(free[i], free[j]);
            m.insert(free[j], free[i]);
        }
        1 if k >= 3 => {
            // 3-cycle
            let mut v: Vec<S> = free.to_vec();
            rng.shuffle(&mut v);
            m.insert(v[0], v[1]);
            m.insert(v[1], v[2]);
            m.insert(v[2], v[0]);
        }
        2 => {
            // full cycle
            for i in 0..k {
                m.insert(free[i], free[(i + 1) % k]);
            }
        }
        _ => {
            let mut v: Vec<S> = free.to_vec();
            rng.shuffle(&mut v);
            for i in 0..k {
                m.insert(free[i], v[i]);
            }
        }
    }
    m
}

/// Generates the ops of a sess history: `add`, `union`, `probe` ops.
pub fn gen_history(rng: &mut Rng, p: &GenParams, with_probes: bool) -> Vec<Op> {
    let user: Vec<S> = (0..p.alphabet as S).collect();
    let mut ops: Vec<Op> = Vec::new();
    let mut pool: Vec<Tm> = Vec::new(); // terms mentioned so far
    let nops = rng.range(1, p.max_ops);
    let mut tg_next = 0;
    if p.max_leaf > 4 && rng.chance(3, 4) {
        // wide mode: one e-node over (almost) all user slots, i.e. a class with up to 12 parameters
        let mut sl = user.clone();
        rng.shuffle(&mut sl);
        let k1 = sl.len().min(6);
        let a = Tm::leaf(&format!("p{k1}"), sl[..k1].to_vec());
        let rest = &sl[k1..];
        let t = if rest.is_empty() {
            Tm::node("u", vec![], vec![(vec![], a)])
        } else {
            let b = Tm::leaf(&format!("p{}", rest.len().min(6)), rest[..rest.len().min(6)].to_vec());
            if rng.chance(1, 3) {
                let c = Tm::leaf("p2", vec![sl[0], sl[sl.len() - 1]]);
                Tm::node("t", vec![], vec![(vec![], a), (vec![], b), (vec![], c)])
            } else {
                Tm::node("b", vec![], vec![(vec![], a), (vec![], b)])
            }
        };
        // half of the time (binders allowed) the wide e-node sits under a binder of a node that has a
        // further child AFTER the binder (let) or BEFORE it (h): one e-node whose shape numbers 11 and more
        // slots, with a scope that ends in the middle of the numbering
        let t = if p.binders && sl.len() >= 2 && rng.chance(1, 2) {
            let x = sl[rng.below(sl.len())];
            let e = Tm::leaf("p2", vec![sl[rng.below(sl.len())], sl[0]]);
            if rng.chance(1, 2) {
                Tm::node("let", vec![], vec![(vec![x], t), (vec![], e)])
            } else {
                Tm::node("h", vec![], vec![(vec![], e), (vec![x], t)])
            }
        } else {
            t
        };
        pool.push(t.clone());
        ops.push(Op::new("add").t(t));
    }
    // often start with a few composite terms that share leaves (material for congruence)
    if rng.chance(1, 2) {
        let mut scope: Vec<S> = user.clone();
        scope.truncate(p.max_free.min(p.alphabet));
        let mut tg = TermGen { rng, p, next_binder: 0 };
        let leaves: Vec<Tm> = (0..3).map(|_| tg.leaf(&scope)).collect();
        let k = tg.rng.range(1, 3);
        for _ in 0..k {
            let a = tg.rng.pick(&leaves).clone();
            let b = tg.rng.pick(&leaves).clone();
            let t = match tg.rng.below(4) {
                0 => Tm::node("u", vec![], vec![(vec![], a)]),
                1 => Tm::node("b", vec![], vec![(vec![], a), (vec![], b)]),
                2 => Tm::node("b", vec![], vec![(vec![], Tm::node("u", vec![], vec![(vec![], a)])), (vec![], b)]),
                _ => {
                    if scope.is_empty() {
                        a
                    } else {
                        let s0 = *tg.rng.pick(&scope);
                        Tm::node("g", vec![s0], vec![(vec![], a)])
                    }
                }
            };
            pool.push(t.clone());
            ops.push(Op::new("add").t(t));
        }
    }
    for _ in 0..nops {
        let mut scope: Vec<S> = user.clone();
        rng.shuffle(&mut scope);
        let lo = if p.max_leaf > 4 { p.alphabet / 2 } else { 1.min(p.max_free) };
        scope.truncate(rng.range(lo, p.max_free.min(p.alphabet)));
        let mut tg = TermGen { rng, p, next_binder: tg_next };
        let kind = tg.rng.weighted(&[3, 10, if with_probes { 3 } else { 0 }]);
        match kind {
            0 => {
                let d = tg.rng.range(1, p.max_depth);
                let t = tg.term(d, &scope);
                pool.push(t.clone());
                ops.push(Op::new("add").t(t));
            }
            1 => {
                let d = tg.rng.range(1, p.max_depth);
                // left side: new term or an earlier one (or a subterm of one)
                let a = if !pool.is_empty() && tg.rng.chance(1, 2) {
                    let t = tg.rng.pick(&pool).clone();
                    let subs = t.subterms();
                    let cand: Vec<&Tm> = subs.iter().filter(|s| s.free().iter().all(|x| (*x as usize) < p.alphabet)).collect();
                    (*tg.rng.pick(&cand)).clone()
                } else {
                    tg.term(d, &scope)
                };
                let free = a.free_vec();
                let mut fresh = 1000;
                let b = match tg.rng.weighted(&[5, 4, 2, 3, 2, 2, if pool.is_empty() { 0 } else { 9 }]) {
                    // balanced union of two existing subterms: the second one's slots are renamed
                    // onto the first one's, so nothing shrinks and parents merge by congruence
                    6 => {
                        let t = tg.rng.pick(&pool).clone();
                        let subs = t.subterms();
                        let cand: Vec<&Tm> =
                            subs.iter().filter(|s| s.free().iter().all(|x| (*x as usize) < p.alphabet)).collect();
                        let b0 = (*tg.rng.pick(&cand)).clone();
                        let bf = b0.free_vec();
                        let mut target: Vec<S> = free.clone();
                        tg.rng.shuffle(&mut target);
                        let mut m = BTreeMap::new();
                        let mut extra: Vec<S> = user.iter().copied().filter(|x| !free.contains(x)).collect();
                        tg.rng.shuffle(&mut extra);
                        for (i, x) in bf.iter().enumerate() {
                            if i < target.len() {
                                m.insert(*x, target[i]);
                            } else if let Some(e) = extra.pop() {
                                m.insert(*x, e);
                            }
                        }
                        let mut img: Vec<S> = Vec::new();
                        let mut ok = true;
                        for x in &bf {
                            let y = *m.get(x).unwrap_or(x);
                            if img.contains(&y) {
                                ok = false;
                            }
                            img.push(y);
                        }
                        if ok {
                            normalise_binders(&b0.rename(&m, &mut fresh), p.alphabet)
                        } else {
                            b0
                        }
                    }
                    // unrelated term over a possibly different scope
                    0 => {
                        let mut sc2 = user.clone();
                        tg.rng.shuffle(&mut sc2);
                        sc2.truncate(tg.rng.range(1.min(p.max_free), p.max_free.min(p.alphabet)));
                        let d2 = tg.rng.range(1, p.max_depth);
                        tg.term(d2, &sc2)
                    }
                    // permuted copy: asserts a symmetry
                    1 => {
                        let m = perm_of(tg.rng, &free);
                        normalise_binders(&a.rename(&m, &mut fresh), p.alphabet)
                    }
                    // shifted copy: f(x,y) = f(y,z)
                    2 => {
                        let mut m = BTreeMap::new();
                        let others: Vec<S> = user.iter().copied().collect();
                        for x in &free {
                            if tg.rng.chance(1, 2) {
                                m.insert(*x, *tg.rng.pick(&others));
                            }
                        }
                        // keep it injective
                        let mut img: Vec<S> = Vec::new();
                        let mut ok = true;
                        for x in &free {
                            let y = *m.get(x).unwrap_or(x);
                            if img.contains(&y) {
                                ok = false;
                            }
                            img.push(y);
                        }
                        if ok {
                            normalise_binders(&a.rename(&m, &mut fresh), p.alphabet)
                        } else {
                            tg.leaf(&scope)
                        }
                    }
                    // drops slots: a = term over a subset of a's slots
                    3 => {
                        let mut sub: Vec<S> = free.clone();
                        if !sub.is_empty() {
                            let i = tg.rng.below(sub.len());
                            sub.remove(i);
                        }
                        let d2 = tg.rng.range(1, 2);
                        tg.term(d2, &sub)
                    }
                    // self-referential: a = f(a)
                    4 => match tg.rng.below(3) {
                        0 => Tm::node("u", vec![], vec![(vec![], a.clone())]),
                        1 => {
                            let o = tg.leaf(&scope);
                            Tm::node("b", vec![], vec![(vec![], a.clone()), (vec![], o)])
                        }
                        _ => {
                            let m = perm_of(tg.rng, &free);
                            let a2 = normalise_binders(&a.rename(&m, &mut fresh), p.alphabet);
                            Tm::node("b", vec![], vec![(vec![], a2), (vec![], a.clone())])
                        }
                    },
                    // earlier term
                    _ => {
                        if pool.is_empty() {
                            tg.leaf(&scope)
                        } else {
                            tg.rng.pick(&pool).clone()
                        }
                    }
                };
                let (a, b) = if tg.rng.chance(1, 2) { (a, b) } else { (b, a) };
                pool.push(a.clone());
                pool.push(b.clone());
                let old = tg.rng.chance(1, 2) as i64;
                ops.push(Op::new("union").t(a).t(b).i(old));
                // duplicate delivery
                if tg.rng.chance(1, 12) {
                    let last = ops.last().unwrap().clone();
                    ops.push(last);
                }
            }
            _ => {
                if tg.rng.chance(1, 5) {
                    ops.push(Op::new("reseed").i((tg.rng.next() >> 1) as i64 | 1));
                } else {
                    let k = tg.rng.below(9) as i64;
                    let sd = (tg.rng.next() % 1_000_000) as i64;
                    ops.push(Op::new("probe").i(k).i(sd));
                }
            }
        }
        tg_next = tg.next_binder;
    }
    ops
}

/// `rename` gives binders names from a counter; bring them back into alphabet..alphabet+3 so
/// that every name of the trace stays inside the oracle's pool.
pub fn normalise_binders(t: &Tm, alphabet: usize) -> Tm {
    fn rec(t: &Tm, alphabet: usize, depth: usize, env: &mut Vec<(S, S)>) -> Tm {
        let look = |s: S, env: &Vec<(S, S)>| env.iter().rev().find(|(a, _)| *a == s).map(|(_, b)| *b).unwrap_or(s);
        let slots = t.slots.iter().map(|s| look(*s, env)).collect();
        let mut kids = Vec::new();
        for k in &t.kids {
            let n = env.len();
            let mut nb = Vec::new();
            let mut d = depth;
            for b in &k.binders {
                let name = (alphabet + d) as S;
                d += 1;
                env.push((*b, name));
                nb.push(name);
            }
            let kt = rec(&k.t, alphabet, d, env);
            env.truncate(n);
            kids.push(Kid { binders: nb, t: kt });
        }
        Tm { op: t.op, pay: t.pay, slots, kids }
    }
    rec(t, alphabet, 0, &mut Vec::new())
}

pub fn all_terms(ops: &[Op]) -> Vec<Tm> {
    ops.iter().flat_map(|o| o.t.iter().cloned()).collect()
}

pub fn max_free(ops: &[Op]) -> usize {
    all_terms(ops).iter().flat_map(|t| t.subterms()).map(|s| s.free().len()).max().unwrap_or(0)
}

pub fn max_name(ops: &[Op]) -> usize {
    let mut names = std::collections::BTreeSet::new();
    for t in all_terms(ops) {
        t.all_names(&mut names);
    }
    names.iter().next_back().map(|x| *x as usize + 1).unwrap_or(0)
}

/// Executes one op of a sess trace on the session; panics propagate to the caller's `catch`.
pub fn exec_sess_op<L: SimLang, N: Analysis<L>>(s: &mut Sess<L, N>, op: &Op, run: &Run) {
    let nodewise = run.get("nodewise") != 0;
    // the companion e-graph (if any) acts before the run's op on even positions, after it on odd ones
    if s.companion.is_some() && s.cur_op % 2 == 0 {
        s.companion_op(op);
    }
    exec_sess_op_main(s, op, run, nodewise);
    if s.companion.is_some() && s.cur_op % 2 == 1 {
        s.companion_op(op);
    }
}

fn exec_sess_op_main<L: SimLang, N: Analysis<L>>(s: &mut Sess<L, N>, op: &Op, run: &Run, nodewise: bool) {
    match op.name.as_str() {
        "add" => {
            s.add_term(&op.t[0], nodewise);
        }
        "union" => {
            let old = op.int(0) != 0 && run.get("old_handles") != 0;
            s.union_terms(&op.t[0], &op.t[1], old, nodewise);
        }
        "probe" => {
            if run.get("probes") != 0 {
                run_probes(s, op.int(0), op.int(1) as u64);
            }
        }
        "reseed" => {
            // K1: hash maps created from now on use another iteration order
            if run.get("hash_seed") != 0 {
                crate::exec::seam::set_hash_seed(op.int(0) as u64);
            }
        }
        o => panic!("harness: unknown sess op {o}"),
    }
}

/// Runs a piece of work that calls into the library, with fuel and work budget. A panic that
/// originates in the simulator's own code is a harness error and is re-raised (exit 2).
pub fn catch_op<R>(f: impl FnOnce() -> R) -> Result<R, PanicInfo> {
    crate::exec::seam::refuel(crate::exec::fuel_per_op());
    let r = catch(f);
    crate::exec::seam::unlimited_fuel();
    if let Err(p) = &r {
        if p.is_harness() {
            panic!("harness panic: {} at {}", p.msg, p.loc);
        }
    }
    r
}
