//! The explicit, replayable description of one simulated run, and its outcome.

use crate::exec::Knobs;
use crate::tm::*;
use serde_json::{json, Value};
use std::collections::BTreeMap;

/// One operation of a trace. Generic container: `name` selects the behaviour, the executor of
/// each check documents what `t` (terms), `i` (integers) and `s` (strings) mean.
#[derive(Clone, PartialEq, Eq, Hash, Debug)]
pub struct Op {
    pub name: String,
    pub t: Vec<Tm>,
    pub i: Vec<i64>,
    pub s: Vec<String>,
}

impl Op {
    pub fn new(name: &str) -> Op {
        Op { name: name.to_string(), t: vec![], i: vec![], s: vec![] }
    }
    pub fn t(mut self, t: Tm) -> Op {
        self.t.push(t);
        self
    }
    pub fn i(mut self, i: i64) -> Op {
        self.i.push(i);
        self
    }
    pub fn s(mut self, s: &str) -> Op {
        self.s.push(s.to_string());
        self
    }
    pub fn int(&self, k: usize) -> i64 {
        self.i.get(k).copied().unwrap_or(0)
    }
    pub fn to_json(&self) -> Value {
        json!({
            "op": self.name,
            "t": self.t.iter().map(|t| t.to_string()).collect::<Vec<_>>(),
            "i": self.i,
            "s": self.s,
        })
    }
    pub fn from_json(v: &Value) -> Result<Op, String> {
        let name = v["op"].as_str().ok_or("op name")?.to_string();
        let mut t = Vec::new();
        if let Some(a) = v["t"].as_array() {
            for x in a {
                t.push(parse_tm(x.as_str().ok_or("term string")?)?);
            }
        }
        let i = v["i"].as_array().map(|a| a.iter().filter_map(|x| x.as_i64()).collect()).unwrap_or_default();
        let s = v["s"]
            .as_array()
            .map(|a| a.iter().filter_map(|x| x.as_str().map(|s| s.to_string())).collect())
            .unwrap_or_default();
        Ok(Op { name, t, i, s })
    }
    pub fn short(&self) -> String {
        let mut out = self.name.clone();
        for i in &self.i {
            out.push_str(&format!(" {i}"));
        }
        for s in &self.s {
            out.push_str(&format!(" {s:?}"));
        }
        for (k, t) in self.t.iter().enumerate() {
            out.push_str(if k == 0 { " " } else { " ; " });
            out.push_str(&t.to_string());
        }
        out
    }
}

#[derive(Clone, PartialEq, Eq, Debug)]
pub struct Run {
    /// executor that interprets this run (check id, e.g. "C01")
    pub check: String,
    /// seed the run was generated from (informational; execution never reads it)
    pub seed: u64,
    pub cfg: BTreeMap<String, i64>,
    pub ops: Vec<Op>,
}

impl Run {
    pub fn new(check: &str, seed: u64) -> Run {
        Run { check: check.to_string(), seed, cfg: BTreeMap::new(), ops: Vec::new() }
    }
    pub fn get(&self, k: &str) -> i64 {
        self.cfg.get(k).copied().unwrap_or(0)
    }
    pub fn set(&mut self, k: &str, v: i64) {
        self.cfg.insert(k.to_string(), v);
    }
    pub fn knobs(&self) -> Knobs {
        Knobs {
            hash_seed: self.get("hash_seed") as u64,
            stride_seed: self.get("stride_seed") as u64,
            stride_max: self.get("stride_max") as u32,
            buggify_mask: self.get("buggify_mask") as u32,
            buggify_seed: self.get("buggify_seed") as u64,
            fuel: {
                let f = self.get("fuel");
                if f <= 0 {
                    crate::exec::DEFAULT_FUEL
                } else {
                    f as u64
                }
            },
        }
    }
    pub fn to_json(&self) -> Value {
        json!({
            "check": self.check,
            "seed": self.seed,
            "cfg": self.cfg,
            "ops": self.ops.iter().map(|o| o.to_json()).collect::<Vec<_>>(),
        })
    }
    pub fn from_json(v: &Value) -> Result<Run, String> {
        let check = v["check"].as_str().ok_or("check")?.to_string();
        let seed = v["seed"].as_u64().unwrap_or(0);
        let mut cfg = BTreeMap::new();
        if let Some(o) = v["cfg"].as_object() {
            for (k, x) in o {
                cfg.insert(k.clone(), x.as_i64().ok_or("cfg int")?);
            }
        }
        let mut ops = Vec::new();
        if let Some(a) = v["ops"].as_array() {
            for x in a {
                ops.push(Op::from_json(x)?);
            }
        }
        Ok(Run { check, seed, cfg, ops })
    }
    pub fn short(&self) -> Vec<String> {
        self.ops.iter().map(|o| o.short()).collect()
    }
    /// hash of the run modulo nothing (exact); used with the canonical key for distinctness
    pub fn hash(&self) -> u64 {
        crate::rng::hash_str(&self.to_json().to_string())
    }
    /// canonical key: ops with slots renamed by first occurrence over the whole trace + cfg
    pub fn canonical_key(&self) -> u64 {
        let mut map: BTreeMap<S, S> = BTreeMap::new();
        let mut s = String::new();
        for (k, v) in &self.cfg {
            s.push_str(&format!("{k}={v};"));
        }
        for op in &self.ops {
            s.push_str(&op.name);
            for i in &op.i {
                s.push_str(&format!(",{i}"));
            }
            for x in &op.s {
                s.push_str(&format!(",{x}"));
            }
            for t in &op.t {
                let mut names = std::collections::BTreeSet::new();
                t.all_names(&mut names);
                // first-occurrence order inside the printed term
                let printed = t.to_string();
                let mut order: Vec<S> = Vec::new();
                for tok in printed.split(|c: char| !(c.is_ascii_digit() || c == '$')) {
                    if let Some(n) = tok.strip_prefix('$') {
                        if let Ok(n) = n.parse::<S>() {
                            if !order.contains(&n) {
                                order.push(n);
                            }
                        }
                    }
                }
                for n in order {
                    let l = map.len() as S;
                    map.entry(n).or_insert(l);
                }
                let renamed = rename_all(t, &map);
                s.push_str(&format!("|{renamed}"));
            }
            s.push('\n');
        }
        crate::rng::hash_str(&s)
    }
}

/// renames every name (free and bound) through `m`
pub fn rename_all(t: &Tm, m: &BTreeMap<S, S>) -> Tm {
    Tm {
        op: t.op,
        pay: t.pay,
        slots: t.slots.iter().map(|s| *m.get(s).unwrap_or(s)).collect(),
        kids: t
            .kids
            .iter()
            .map(|k| Kid {
                binders: k.binders.iter().map(|s| *m.get(s).unwrap_or(s)).collect(),
                t: rename_all(&k.t, m),
            })
            .collect(),
    }
}

#[derive(Clone, Debug, PartialEq, Eq)]
pub struct Violation {
    pub property: String,
    /// which clause of the property
    pub clause: String,
    /// failure kind: "panic", "mismatch", "fuel", ...
    pub kind: String,
    /// stable signature used for known-finding matching (normalised message / function)
    pub sig: String,
    /// trigger predicates true for this run, evaluated on the reference model's view
    pub triggers: Vec<String>,
    /// human-readable detail (not compared)
    pub detail: String,
    /// index of the op at which it was detected
    pub at_op: usize,
}

impl Violation {
    pub fn class(&self) -> (String, String, String) {
        (self.property.clone(), self.clause.clone(), self.kind.clone())
    }
    pub fn to_json(&self) -> Value {
        json!({
            "property": self.property, "clause": self.clause, "kind": self.kind,
            "sig": self.sig, "triggers": self.triggers, "detail": self.detail, "at_op": self.at_op,
        })
    }
}

#[derive(Clone, Debug, Default)]
pub struct Outcome {
    pub violations: Vec<Violation>,
    /// counters (fault kinds fired, probes, oracle queries, ...)
    pub counters: BTreeMap<String, u64>,
    /// non-trivial by the check's rule
    pub nontrivial: bool,
    /// reason if the run was discarded (e.g. panic that is another property's business)
    pub discarded: Option<String>,
    /// hashes of canonical e-graph states reached
    pub states: Vec<u64>,
    /// hash of the event log (determinism self-test)
    pub log_hash: u64,
    /// simulated time: operations executed
    pub ops_executed: u64,
}

impl Outcome {
    pub fn count(&mut self, k: &str, n: u64) {
        if n > 0 {
            *self.counters.entry(k.to_string()).or_insert(0) += n;
        }
    }
    pub fn bump(&mut self, k: &str) {
        self.count(k, 1)
    }
}

// ---- shrinking ----------------------------------------------------------------------------

/// smaller variants of a term (ordered roughly from most to least aggressive)
pub fn shrink_tm(t: &Tm, la: bool) -> Vec<Tm> {
    let mut out = Vec::new();
    // replace by a kid
    for k in &t.kids {
        out.push(k.t.clone());
    }
    // replace a kid by a leaf
    for (i, k) in t.kids.iter().enumerate() {
        if k.t.size() > 1 {
            let mut c = t.clone();
            // a leaf of the same language
            c.kids[i].t = if la { Tm::pay("num", 0) } else { Tm::pay("k", 0) };
            out.push(c);
        }
    }
    // shrink inside kids
    for (i, k) in t.kids.iter().enumerate() {
        for s in shrink_tm(&k.t, la) {
            let mut c = t.clone();
            c.kids[i].t = s;
            out.push(c);
        }
    }
    // lower payload
    if t.pay > 0 {
        let mut c = t.clone();
        c.pay = 0;
        out.push(c);
    }
    // leaf with fewer slots
    if t.kids.is_empty() && t.slots.len() > 1 && t.name().starts_with('p') {
        let n = t.slots.len() - 1;
        let mut c = t.clone();
        c.op = op(&format!("p{n}"));
        c.slots.truncate(n);
        out.push(c);
    }
    out
}

impl Run {
    /// candidate simplifications, most aggressive first
    pub fn shrink_candidates(&self) -> Vec<Run> {
        let mut out = Vec::new();
        // knob zeroing
        for k in ["hash_seed", "stride_max", "buggify_mask", "probes", "naming", "old_handles", "nodewise"] {
            if self.get(k) != 0 {
                let mut r = self.clone();
                r.set(k, 0);
                out.push(r);
            }
        }
        // drop halves, then single ops
        let n = self.ops.len();
        if n >= 4 {
            for (a, b) in [(0, n / 2), (n / 2, n)] {
                let mut r = self.clone();
                r.ops.drain(a..b);
                out.push(r);
            }
        }
        for i in (0..n).rev() {
            let mut r = self.clone();
            r.ops.remove(i);
            out.push(r);
        }
        // shrink terms
        for i in 0..n {
            for j in 0..self.ops[i].t.len() {
                let la = ["C03", "C14", "C15", "C08R", "C11R", "C06R", "C13R", "C07S", "C05R", "C09R", "C20A"].contains(&self.check.as_str());
                for s in shrink_tm(&self.ops[i].t[j], la) {
                    let mut r = self.clone();
                    r.ops[i].t[j] = s;
                    out.push(r);
                }
            }
        }
        // lower ints
        for i in 0..n {
            for j in 0..self.ops[i].i.len() {
                let v = self.ops[i].i[j];
                if v != 0 {
                    let mut r = self.clone();
                    r.ops[i].i[j] = 0;
                    out.push(r);
                    if v > 1 {
                        let mut r = self.clone();
                        r.ops[i].i[j] = v / 2;
                        out.push(r);
                    }
                }
            }
        }
        // lower slot names: replace the largest name by the smallest unused one
        let mut names = std::collections::BTreeSet::new();
        for o in &self.ops {
            for t in &o.t {
                t.all_names(&mut names);
            }
        }
        if let Some(&mx) = names.iter().next_back() {
            if let Some(unused) = (0..mx).find(|x| !names.contains(x)) {
                let m: BTreeMap<S, S> = [(mx, unused)].into_iter().collect();
                let mut r = self.clone();
                for o in r.ops.iter_mut() {
                    for t in o.t.iter_mut() {
                        *t = rename_all(t, &m);
                    }
                }
                out.push(r);
            }
        }
        out
    }
}
