//! Run isolation: fresh thread per run, panic capture, knob application.

use std::cell::{Cell, RefCell};
use std::panic::{catch_unwind, AssertUnwindSafe};
use std::sync::Once;

#[derive(Clone, Debug, Default, PartialEq, Eq)]
pub struct PanicInfo {
    pub msg: String,
    pub loc: String,
    /// innermost slotted_egraphs function on the stack (only when backtraces are requested)
    pub func: String,
}

impl PanicInfo {
    /// message with numbers and slot / id names replaced, stable across runs
    pub fn norm_msg(&self) -> String {
        normalise(&self.msg)
    }
    /// did the panic originate in the simulator's own code (not in /repo, std or a dependency)?
    pub fn is_harness(&self) -> bool {
        // (the simulator crate is compiled with relative paths, every dependency with absolute ones)
        self.msg.starts_with("harness:") || self.loc.starts_with("src/")
    }
    pub fn file(&self) -> String {
        self.loc.split(':').next().unwrap_or("").rsplit("/src/").next().unwrap_or("").to_string()
    }
}

pub fn normalise(s: &str) -> String {
    let mut out = String::new();
    let first_line = s.lines().next().unwrap_or("");
    let mut prev_digit = false;
    let mut in_slot = false;
    for c in first_line.chars() {
        if in_slot {
            if c.is_alphanumeric() || c == '_' {
                continue;
            }
            in_slot = false;
        }
        if c == '$' {
            out.push('$');
            in_slot = true;
            prev_digit = false;
            continue;
        }
        if c.is_ascii_digit() {
            if !prev_digit {
                out.push('#');
            }
            prev_digit = true;
        } else {
            prev_digit = false;
            out.push(c);
        }
    }
    if out.len() > 100 {
        let mut n = 100;
        while !out.is_char_boundary(n) {
            n -= 1;
        }
        out.truncate(n);
    }
    out
}

thread_local! {
    static LAST_PANIC: RefCell<Option<PanicInfo>> = RefCell::new(None);
    static WANT_BT: Cell<bool> = Cell::new(false);
    static CATCH_DEPTH: Cell<u32> = Cell::new(0);
    static WORK_EXCEEDED: Cell<bool> = Cell::new(false);
    static FUEL_PER_OP: Cell<u64> = Cell::new(DEFAULT_FUEL);
    static COUNTER_EXHAUSTED: Cell<bool> = Cell::new(false);
}

/// true (once) if Slot::fresh ran out of numbers in this thread (possible when the K2 stride
/// seam makes every fresh call skip up to 1000 numbers)
pub fn take_counter_exhausted() -> bool {
    COUNTER_EXHAUSTED.with(|w| w.replace(false))
}

pub fn fuel_per_op() -> u64 {
    let f = FUEL_PER_OP.with(|f| f.get());
    if cfg!(feature = "checks") {
        f.min(2_500)
    } else {
        f
    }
}

/// true (once) if a library call of this thread ran into the work budget: the run is then
/// discarded as too expensive, whatever else it reported.
pub fn take_work_exceeded() -> bool {
    WORK_EXCEEDED.with(|w| w.replace(false))
}

static HOOK: Once = Once::new();

pub fn install_panic_hook() {
    HOOK.call_once(|| {
        std::panic::set_hook(Box::new(|info| {
            let msg = if let Some(s) = info.payload().downcast_ref::<&str>() {
                s.to_string()
            } else if let Some(s) = info.payload().downcast_ref::<String>() {
                s.clone()
            } else {
                "<non-string panic>".to_string()
            };
            let loc = info
                .location()
                .map(|l| format!("{}:{}", l.file(), l.line()))
                .unwrap_or_default();
            if msg.contains("fresh slot counter exhausted") {
                COUNTER_EXHAUSTED.with(|w| w.set(true));
            }
            // with the `checks` feature every rebuild step runs the O(n) consistency check; long
            // rebuilds are cut off early there and count as "too expensive", not as non-termination
            // (the same run is judged with the full fuel in the default build)
            if cfg!(feature = "checks") && msg.contains("fuel exhausted") {
                WORK_EXCEEDED.with(|w| w.set(true));
            }
            if msg.contains("work budget exceeded") {
                WORK_EXCEEDED.with(|w| w.set(true));
            }
            if CATCH_DEPTH.with(|d| d.get()) == 0 {
                // not inside exec::catch: a harness panic. Make it visible.
                eprintln!("HARNESS PANIC: {msg} at {loc}");
            }
            let mut func = String::new();
            if WANT_BT.with(|w| w.get()) {
                let bt = std::backtrace::Backtrace::force_capture().to_string();
                // frames look like "  12: slotted_egraphs::egraph::rebuild::<impl ...>::shrink_slots"
                let mut chain: Vec<String> = Vec::new();
                for line in bt.lines() {
                    let l = line.trim();
                    let Some((_, name)) = l.split_once(": ") else { continue };
                    if !name.contains("slotted_egraphs::") || name.contains("::verif::") {
                        continue;
                    }
                    // last path segment that is not a closure / hash
                    let segs: Vec<&str> = name.split("::").filter(|s| !s.starts_with("{{") && !(s.starts_with('h') && s.len() == 17)).collect();
                    if let Some(last) = segs.last() {
                        let last = last.trim_end_matches('>').to_string();
                        if chain.last() != Some(&last) {
                            chain.push(last);
                        }
                    }
                    if chain.len() >= 6 {
                        break;
                    }
                }
                func = chain.join(" <- ");
                if std::env::var("SIM_FULL_BT").is_ok() {
                    eprintln!("{bt}");
                }
            }
            LAST_PANIC.with(|p| {
                // keep the first panic of a catch scope (later ones are usually consequences)
                let mut p = p.borrow_mut();
                if p.is_none() {
                    *p = Some(PanicInfo { msg, loc, func });
                }
            });
        }));
    });
}

pub fn want_backtrace(b: bool) {
    WANT_BT.with(|w| w.set(b));
}

/// Runs `f`, converting a panic into `Err(PanicInfo)`.
pub fn catch<R>(f: impl FnOnce() -> R) -> Result<R, PanicInfo> {
    LAST_PANIC.with(|p| *p.borrow_mut() = None);
    CATCH_DEPTH.with(|d| d.set(d.get() + 1));
    let r = catch_unwind(AssertUnwindSafe(f));
    CATCH_DEPTH.with(|d| d.set(d.get() - 1));
    match r {
        Ok(r) => Ok(r),
        Err(_) => Err(LAST_PANIC.with(|p| p.borrow_mut().take()).unwrap_or_default()),
    }
}

/// Runs `f` in a brand-new OS thread with a large stack: thread-local slot table, simulator
/// knobs and named-slot interner all start from zero.
pub fn in_fresh_thread<R: Send + 'static>(f: impl FnOnce() -> R + Send + 'static) -> R {
    try_in_fresh_thread(f).expect("run thread must not unwind (use exec::catch inside)")
}

/// like `in_fresh_thread`, but a panic of the run thread (a harness panic) is returned as Err
pub fn try_in_fresh_thread<R: Send + 'static>(f: impl FnOnce() -> R + Send + 'static) -> Result<R, ()> {
    let want = WANT_BT.with(|w| w.get());
    std::thread::Builder::new()
        .stack_size(256 << 20)
        .spawn(move || {
            want_backtrace(want);
            f()
        })
        .expect("spawn")
        .join()
        .map_err(|_| ())
}

#[derive(Clone, Debug, Default, PartialEq, Eq)]
pub struct Knobs {
    pub hash_seed: u64,
    pub stride_seed: u64,
    pub stride_max: u32,
    pub buggify_mask: u32,
    pub buggify_seed: u64,
    pub fuel: u64,
}

pub const DEFAULT_FUEL: u64 = 20_000_000;
/// iterations of the combinatorial variant / match loops per operation
pub const DEFAULT_WORK: u64 = 300_000;

#[cfg(slotted_egraphs_verif)]
pub mod seam {
    use super::Knobs;
    use slotted_egraphs::verif;
    pub const GUARD_ON: bool = true;
    pub fn apply(k: &Knobs) {
        super::FUEL_PER_OP.with(|f| f.set(if k.fuel == 0 { super::DEFAULT_FUEL } else { k.fuel }));
        verif::reset_all();
        verif::set_hash_seed(k.hash_seed);
        verif::set_fresh_stride(k.stride_seed, k.stride_max);
        verif::set_buggify(k.buggify_mask, k.buggify_seed);
    }
    pub fn set_hash_seed(s: u64) {
        verif::set_hash_seed(s)
    }
    pub fn refuel(n: u64) {
        verif::set_fuel(n);
        verif::set_work_budget(super::DEFAULT_WORK);
    }
    pub fn unlimited_fuel() {
        verif::set_fuel(u64::MAX);
        verif::set_work_budget(u64::MAX);
    }
    pub fn ticks() -> u64 {
        verif::ticks()
    }
    pub fn take_probes() -> Vec<(&'static str, u64)> {
        verif::take_probes()
    }
    pub fn buggify_fired(site: u32) -> u64 {
        verif::buggify_fired(site)
    }
    pub fn clock_set(n: u64) {
        verif::clock_set_nanos(n)
    }
    pub fn clock_advance_nanos(n: u64) {
        verif::clock_advance(std::time::Duration::from_nanos(n))
    }
    pub fn clock_now() -> u64 {
        verif::clock_nanos()
    }
    pub fn clock_auto_step(n: u64) {
        verif::clock_set_auto_step(n)
    }
    pub fn clock_reads() -> u64 {
        verif::clock_reads()
    }
}

#[cfg(not(slotted_egraphs_verif))]
pub mod seam {
    use super::Knobs;
    pub const GUARD_ON: bool = false;
    pub fn apply(_k: &Knobs) {}
    pub fn set_hash_seed(_s: u64) {}
    pub fn refuel(_n: u64) {}
    pub fn unlimited_fuel() {}
    pub fn ticks() -> u64 {
        0
    }
    pub fn take_probes() -> Vec<(&'static str, u64)> {
        Vec::new()
    }
    pub fn buggify_fired(_site: u32) -> u64 {
        0
    }
    pub fn clock_set(_n: u64) {}
    pub fn clock_advance_nanos(_n: u64) {}
    pub fn clock_now() -> u64 {
        0
    }
    pub fn clock_auto_step(_n: u64) {}
    pub fn clock_reads() -> u64 {
        0
    }
}

// ---- stdout capture (EGraph::dump prints with println!) --------------------------------------

extern "C" {
    fn dup(fd: i32) -> i32;
    fn dup2(oldfd: i32, newfd: i32) -> i32;
    fn close(fd: i32) -> i32;
}

static STDOUT_CAPTURE: std::sync::Mutex<()> = std::sync::Mutex::new(());

/// Runs `f` with file descriptor 1 redirected into a temporary file and returns what was written.
/// Serialised process-wide; the simulator itself prints nothing while runs are executing.
pub fn capture_stdout(f: impl FnOnce()) -> String {
    use std::io::Write;
    use std::os::unix::io::AsRawFd;
    let _g = STDOUT_CAPTURE.lock().unwrap_or_else(|e| e.into_inner());
    let path = std::env::temp_dir().join(format!("simcheck-stdout-{}-{:?}", std::process::id(), std::thread::current().id()));
    let file = std::fs::File::create(&path).expect("capture file");
    let _ = std::io::stdout().flush();
    let saved = unsafe { dup(1) };
    assert!(saved >= 0);
    unsafe { dup2(file.as_raw_fd(), 1) };
    let r = std::panic::catch_unwind(std::panic::AssertUnwindSafe(f));
    let _ = std::io::stdout().flush();
    unsafe {
        dup2(saved, 1);
        close(saved);
    }
    drop(file);
    let out = std::fs::read_to_string(&path).unwrap_or_default();
    let _ = std::fs::remove_file(&path);
    if let Err(e) = r {
        std::panic::resume_unwind(e);
    }
    out
}


/// Crash attribution: where a property itself promises "does not panic" (extraction, explanation,
/// use of old handles) the check marks that phase. The mark is written to a file only in the
/// single-run re-execution that the driver starts after the process died, so that a stack overflow
/// or abort inside that phase can be reported as a violation of that property.
pub static PHASE_FILE: std::sync::OnceLock<String> = std::sync::OnceLock::new();

pub fn set_phase(p: &str) {
    if let Some(f) = PHASE_FILE.get() {
        let _ = std::fs::write(f, p);
    }
}

pub struct PhaseGuard;

impl Drop for PhaseGuard {
    fn drop(&mut self) {
        set_phase("");
    }
}

pub fn phase(p: &str) -> PhaseGuard {
    set_phase(p);
    PhaseGuard
}
