//! The pool of model-valid rewrite rules over LA (arithmetic mod p with sum and let binders),
//! their validation against M_field by direct term evaluation, and their construction as real
//! `Rewrite`s whose searchers / conditions / appliers are owned by the simulator.

use crate::langs::*;
use crate::oracle::field::eval_tm;
use crate::rng::Rng;
use crate::tm::*;
use slotted_egraphs::*;
use std::collections::BTreeMap;

#[derive(Clone, Debug)]
pub struct Rule {
    pub name: &'static str,
    pub l: Pat,
    pub r: Pat,
    /// condition: slot `.0` must not be free in the binding of variable `.1`
    pub cond: Option<(S, u32)>,
    /// a second conjunct; rules with two conjuncts are built with the crate's own
    /// Rewrite::new_if / and / not / slot_free_in combinators
    pub cond2: Option<(S, u32)>,
    /// condition: the bindings of the two variables are equal in the e-graph (built with the
    /// crate's Rewrite::new_if and a closure that calls EGraph::eq)
    pub cond_eq: Option<(u32, u32)>,
}

fn v(i: u32) -> Pat {
    Pat::Var(i)
}
fn n2(name: &str, a: Pat, b: Pat) -> Pat {
    Pat::node(name, vec![], vec![(vec![], a), (vec![], b)])
}
fn n1(name: &str, a: Pat) -> Pat {
    Pat::node(name, vec![], vec![(vec![], a)])
}
fn num(c: u32) -> Pat {
    Pat::pay("num", c)
}
fn sum(x: S, b: Pat) -> Pat {
    Pat::node("sum", vec![], vec![(vec![x], b)])
}
fn let_(x: S, b: Pat, e: Pat) -> Pat {
    Pat::node("let", vec![], vec![(vec![x], b), (vec![], e)])
}
fn var(x: S) -> Pat {
    Pat::node("var", vec![x], vec![])
}

/// pattern slots used by the rules (bound names)
pub const X: S = 90;
pub const Y: S = 91;
/// free pattern slots
pub const FS: S = 92;
pub const FT: S = 93;
pub const FU: S = 94;
pub const FV: S = 95;

pub fn rule_pool(p: u32) -> Vec<Rule> {
    let r = |name: &'static str, l: Pat, r: Pat| Rule { name, l, r, cond: None, cond2: None, cond_eq: None };
    let rc = |name: &'static str, l: Pat, r: Pat, c: (S, u32)| Rule { name, l, r, cond: Some(c), cond2: None, cond_eq: None };
    vec![
        r("add-comm", n2("add", v(0), v(1)), n2("add", v(1), v(0))),
        r("add-assoc", n2("add", n2("add", v(0), v(1)), v(2)), n2("add", v(0), n2("add", v(1), v(2)))),
        r("mul-comm", n2("mul", v(0), v(1)), n2("mul", v(1), v(0))),
        r("mul-assoc", n2("mul", n2("mul", v(0), v(1)), v(2)), n2("mul", v(0), n2("mul", v(1), v(2)))),
        r("distr", n2("mul", v(0), n2("add", v(1), v(2))), n2("add", n2("mul", v(0), v(1)), n2("mul", v(0), v(2)))),
        r("factor", n2("add", n2("mul", v(0), v(1)), n2("mul", v(0), v(2))), n2("mul", v(0), n2("add", v(1), v(2)))),
        r("add-zero", n2("add", v(0), num(0)), v(0)),
        r("mul-one", n2("mul", v(0), num(1)), v(0)),
        r("mul-zero", n2("mul", v(0), num(0)), num(0)),
        r("neg-neg", n1("neg", n1("neg", v(0))), v(0)),
        r("add-neg", n2("add", v(0), n1("neg", v(0))), num(0)),
        r("neg-def", n1("neg", v(0)), n2("mul", num(p - 1), v(0))),
        r("add-self", n2("add", v(0), v(0)), n2("mul", num(2 % p), v(0))),
        // binders
        r("sum-linear", sum(X, n2("add", v(0), v(1))), n2("add", sum(X, v(0)), sum(X, v(1)))),
        r("sum-swap", sum(X, sum(Y, v(0))), sum(Y, sum(X, v(0)))),
        // moves ?0 under the binder: no side condition, capture avoidance must come from slots
        r("sum-push", n2("mul", v(0), sum(X, v(1))), sum(X, n2("mul", v(0), v(1)))),
        rc("sum-pull", sum(X, n2("mul", v(0), v(1))), n2("mul", v(0), sum(X, v(1))), (X, 0)),
        rc("sum-const", sum(X, v(0)), n2("add", v(0), v(0)), (X, 0)),
        r("sum-var", sum(X, var(X)), num(1)),
        r("let-var", let_(X, var(X), v(0)), v(0)),
        rc("let-const", let_(X, v(0), v(1)), v(0), (X, 0)),
        r("let-add", let_(X, n2("add", v(0), v(1)), v(2)), n2("add", let_(X, v(0), v(2)), let_(X, v(1), v(2)))),
        r("let-mul", let_(X, n2("mul", v(0), v(1)), v(2)), n2("mul", let_(X, v(0), v(2)), let_(X, v(1), v(2)))),
        r("let-neg", let_(X, n1("neg", v(0)), v(1)), n1("neg", let_(X, v(0), v(1)))),
        // re-binding: the inner binder is moved outside the let
        r("let-sum", let_(X, sum(Y, v(0)), v(1)), sum(Y, let_(X, v(0), v(1)))),
        // substitution form b[x := t]
        r("let-subst", let_(X, v(0), v(1)), Pat::Subst(Box::new(v(0)), Box::new(var(X)), Box::new(v(1)))),
        r("let-intro", n2("add", v(0), v(0)), let_(X, n2("add", var(X), var(X)), v(0))),
        // two side conditions (crate combinators): sum over x in {0,1} of (a + b) with x in neither
        Rule { name: "sum-const-add", l: sum(X, n2("add", v(0), v(1))), r: n2("add", n2("add", v(0), v(1)), n2("add", v(0), v(1))), cond: Some((X, 0)), cond2: Some((X, 1)), cond_eq: None },
        // a - b = 0 if a and b are already known to be equal (all slots of a and b are covered by
        // the pattern's binders)
        Rule { name: "sum2-sub-eq", l: sum(X, sum(Y, n2("add", v(0), n1("neg", v(1))))), r: num(0), cond: None, cond2: None, cond_eq: Some((0, 1)) },
        // the same under two let binders: here a wrong firing for a(x,y) - a(y,x) is not valid in
        // the model (unlike under two summations, which are symmetric in x and y)
        Rule { name: "let2-sub-eq", l: let_(X, let_(Y, n2("add", v(0), n1("neg", v(1))), v(2)), v(3)), r: num(0), cond: None, cond2: None, cond_eq: Some((0, 1)) },
        // a child before a binder
        r("sumr-intro", n2("mul", v(0), sum(X, v(1))), Pat::node("sumr", vec![], vec![(vec![], v(0)), (vec![X], v(1))])),
        r("sumr-elim", Pat::node("sumr", vec![], vec![(vec![], v(0)), (vec![X], v(1))]), n2("mul", v(0), sum(X, v(1)))),
        r("sumr-linear", Pat::node("sumr", vec![], vec![(vec![], v(0)), (vec![X], n2("add", v(1), v(2)))]), n2("add", Pat::node("sumr", vec![], vec![(vec![], v(0)), (vec![X], v(1))]), Pat::node("sumr", vec![], vec![(vec![], v(0)), (vec![X], v(2))]))),
        // a free pattern slot that occurs twice: (a + x) - x = a
        r("add-sub-var", n2("add", n2("add", v(0), var(FS)), n1("neg", var(FS))), v(0)),
        r("mul-var-comm", n2("mul", var(FS), var(FT)), n2("mul", var(FT), var(FS))),
        // a right side with a slot of its own: every a - a is the same class, which therefore has a
        // redundant slot that its smallest term mentions twice (no constant is introduced)
        r("add-neg-canon", n2("add", v(0), n1("neg", v(0))), n2("add", var(FU), n1("neg", var(FU)))),
        r("mul-zero-canon", n2("mul", v(0), num(0)), n2("mul", var(FV), num(0))),
    ]
}

/// variables of the rule under which binders they occur on the left side
fn var_scopes(p: &Pat, scope: &mut Vec<S>, out: &mut BTreeMap<u32, Vec<S>>) {
    match p {
        Pat::Var(v) => {
            out.entry(*v).or_insert_with(|| scope.clone());
        }
        Pat::Node { kids, .. } => {
            for (b, k) in kids {
                let n = scope.len();
                scope.extend(b.iter().copied());
                var_scopes(k, scope, out);
                scope.truncate(n);
            }
        }
        Pat::Subst(a, b, c) => {
            var_scopes(a, scope, out);
            var_scopes(b, scope, out);
            var_scopes(c, scope, out);
        }
    }
}

/// random LA term over the given slots
pub fn random_la(rng: &mut Rng, slots: &[S], depth: usize, binder: &mut S) -> Tm {
    if depth == 0 || rng.chance(1, 4) {
        return match rng.below(4) {
            0 => Tm::pay("num", rng.below(4) as u32),
            1 => Tm::pay("cst", rng.below(3) as u32),
            _ => {
                if slots.is_empty() {
                    Tm::pay("num", rng.below(3) as u32)
                } else {
                    Tm::leaf("var", vec![*rng.pick(slots)])
                }
            }
        };
    }
    match rng.weighted(&[5, 5, 2, 3, 2, 2]) {
        5 => {
            let x = *binder;
            *binder += 1;
            let mut sl = slots.to_vec();
            sl.push(x);
            let r = random_la(rng, slots, depth - 1, binder);
            let body = random_la(rng, &sl, depth - 1, binder);
            Tm::node("sumr", vec![], vec![(vec![], r), (vec![x], body)])
        }
        0 => Tm::node("add", vec![], vec![(vec![], random_la(rng, slots, depth - 1, binder)), (vec![], random_la(rng, slots, depth - 1, binder))]),
        1 => Tm::node("mul", vec![], vec![(vec![], random_la(rng, slots, depth - 1, binder)), (vec![], random_la(rng, slots, depth - 1, binder))]),
        2 => Tm::node("neg", vec![], vec![(vec![], random_la(rng, slots, depth - 1, binder))]),
        3 => {
            let x = *binder;
            *binder += 1;
            let mut sl = slots.to_vec();
            sl.push(x);
            Tm::node("sum", vec![], vec![(vec![x], random_la(rng, &sl, depth - 1, binder))])
        }
        _ => {
            let x = *binder;
            *binder += 1;
            let mut sl = slots.to_vec();
            sl.push(x);
            let body = random_la(rng, &sl, depth - 1, binder);
            let e = random_la(rng, slots, depth - 1, binder);
            Tm::node("let", vec![], vec![(vec![x], body), (vec![], e)])
        }
    }
}

/// term-level substitution b[(var x) := t] with capture avoidance (binders of b are distinct from
/// the free slots of t in all uses here because instance slots and binder names are disjoint)
fn subst_var(b: &Tm, x: S, t: &Tm) -> Tm {
    if b.name() == "var" && b.slots[0] == x {
        return t.clone();
    }
    Tm {
        op: b.op,
        pay: b.pay,
        slots: b.slots.clone(),
        kids: b
            .kids
            .iter()
            .map(|k| {
                if k.binders.contains(&x) {
                    k.clone()
                } else {
                    Kid { binders: k.binders.clone(), t: subst_var(&k.t, x, t) }
                }
            })
            .collect(),
    }
}

fn inst_rule_side(p: &Pat, sub: &BTreeMap<u32, Tm>) -> Tm {
    match p {
        Pat::Subst(b, x, t) => {
            let bt = inst_rule_side(b, sub);
            let xt = inst_rule_side(x, sub);
            let tt = inst_rule_side(t, sub);
            assert_eq!(xt.name(), "var");
            subst_var(&bt, xt.slots[0], &tt)
        }
        Pat::Var(v) => sub[v].clone(),
        Pat::Node { op, pay, slots, kids } => Tm {
            op: *op,
            pay: *pay,
            slots: slots.clone(),
            kids: kids.iter().map(|(b, k)| Kid { binders: b.clone(), t: inst_rule_side(k, sub) }).collect(),
        },
    }
}

/// a random instance of the rule's left side (respecting its side condition)
pub fn instance_of_left(rule: &Rule, rng: &mut Rng, slots: &[S], binder: &mut S) -> Tm {
    let mut scopes = BTreeMap::new();
    var_scopes(&rule.l, &mut Vec::new(), &mut scopes);
    let mut sub = BTreeMap::new();
    for (var, scope) in &scopes {
        let mut sl: Vec<S> = slots.to_vec();
        sl.extend(scope.iter().copied());
        for c in [rule.cond, rule.cond2].into_iter().flatten() {
            let (x, cv) = c;
            if cv == *var {
                sl.retain(|s| *s != x);
            }
        }
        let d = rng.below(3);
        sub.insert(*var, random_la(rng, &sl, d, binder));
    }
    if let Some((a, b)) = rule.cond_eq {
        if rng.chance(2, 3) {
            let ta = sub[&a].clone();
            sub.insert(b, ta);
        }
    }
    // give the rule's bound names fresh names so that several instances never clash
    let t = inst_rule_side(&rule.l, &sub);
    let mut fresh = *binder + 1000;
    let out = t.rename(&BTreeMap::new(), &mut fresh);
    crate::sess::normalise_binders(&out, 400)
}

fn inst_rule_side_override(p: &Pat, sub: &BTreeMap<u32, Tm>, var: u32, other: &Tm, seen: &mut usize) -> Tm {
    match p {
        Pat::Subst(..) => inst_rule_side(p, sub),
        Pat::Var(v) => {
            if *v == var {
                *seen += 1;
                if *seen == 2 {
                    return other.clone();
                }
            }
            sub[v].clone()
        }
        Pat::Node { op, pay, slots, kids } => Tm {
            op: *op,
            pay: *pay,
            slots: slots.clone(),
            kids: kids.iter().map(|(b, k)| Kid { binders: b.clone(), t: inst_rule_side_override(k, sub, var, other, seen) }).collect(),
        },
    }
}

fn count_var(p: &Pat, var: u32) -> usize {
    match p {
        Pat::Var(v) => (*v == var) as usize,
        Pat::Node { kids, .. } => kids.iter().map(|(_, k)| count_var(k, var)).sum(),
        Pat::Subst(a, b, c) => count_var(a, var) + count_var(b, var) + count_var(c, var),
    }
}

/// rules of the pool whose left side mentions a variable twice (outside the substitution form)
pub fn repeated_var_rules(pool: &[Rule]) -> Vec<usize> {
    let mut out = Vec::new();
    for (i, r) in pool.iter().enumerate() {
        let mut vs = Vec::new();
        r.l.vars(&mut vs);
        if r.cond_eq.is_none() && vs.iter().any(|v| count_var(&r.l, *v) >= 2) {
            out.push(i);
        }
    }
    out
}

/// A NEAR-instance of a left side with a repeated variable: the second occurrence of the variable is
/// the first one's term with its free slots permuted (a non-trivial permutation). It is an instance
/// only if that permutation is a symmetry of the term; the matcher has to compare the two
/// occurrences as invocations, not as class ids.
pub fn near_instance_of_left(rule: &Rule, rng: &mut Rng, slots: &[S], binder: &mut S) -> Option<Tm> {
    let mut vs = Vec::new();
    rule.l.vars(&mut vs);
    let var = *vs.iter().find(|v| count_var(&rule.l, **v) >= 2)?;
    let mut scopes = BTreeMap::new();
    var_scopes(&rule.l, &mut Vec::new(), &mut scopes);
    let mut sub = BTreeMap::new();
    for (v, scope) in &scopes {
        let mut sl: Vec<S> = slots.to_vec();
        sl.extend(scope.iter().copied());
        let d = if *v == var { 1 + rng.below(2) } else { rng.below(2) };
        sub.insert(*v, random_la(rng, &sl, d, binder));
    }
    // the repeated variable's term should mention at least two slots
    let mut t = sub[&var].clone();
    if t.free().len() < 2 && slots.len() >= 2 {
        let mk = |x: S| Tm::leaf("var", vec![x]);
        let a = Tm::node("mul", vec![], vec![(vec![], mk(slots[0])), (vec![], mk(slots[1]))]);
        t = if slots.len() >= 3 { Tm::node("add", vec![], vec![(vec![], a), (vec![], mk(slots[2]))]) } else { Tm::node("add", vec![], vec![(vec![], a), (vec![], mk(slots[0]))]) };
        sub.insert(var, t.clone());
    }
    let free = t.free_vec();
    if free.len() < 2 {
        return None;
    }
    let mut img = free.clone();
    for _ in 0..8 {
        rng.shuffle(&mut img);
        if img != free {
            break;
        }
    }
    if img == free {
        return None;
    }
    let rho: BTreeMap<S, S> = free.iter().copied().zip(img.iter().copied()).collect();
    let other = t.rename_keep_binders(&rho);
    let inst = inst_rule_side_override(&rule.l, &sub, var, &other, &mut 0);
    let mut fresh = *binder + 1000;
    let out = inst.rename(&BTreeMap::new(), &mut fresh);
    Some(crate::sess::normalise_binders(&out, 400))
}

/// Validates every rule of the pool on `n` random instantiations by evaluating both sides
/// directly in M_field. A failure is a harness bug.
pub fn validate_pool(p: u32, n: usize, seed: u64) -> Result<(), String> {
    let mut rng = Rng::stream(seed, "rule-validation");
    for rule in rule_pool(p) {
        let mut scopes = BTreeMap::new();
        var_scopes(&rule.l, &mut Vec::new(), &mut scopes);
        for _ in 0..n {
            let mut sub = BTreeMap::new();
            let mut binder = 200;
            for (var, scope) in &scopes {
                let mut slots: Vec<S> = vec![0, 1];
                slots.extend(scope.iter().copied());
                let d = rng.below(3);
                let mut t = random_la(&mut rng, &slots, d, &mut binder);
                for c in [rule.cond, rule.cond2].into_iter().flatten() {
                    let (x, cv) = c;
                    if cv == *var {
                        // respect the side condition: the slot must not be free
                        let ok: Vec<S> = slots.iter().copied().filter(|s| *s != x).collect();
                        t = random_la(&mut rng, &ok, d, &mut binder);
                    }
                }
                sub.insert(*var, t);
            }
            if let Some((a, b)) = rule.cond_eq {
                let ta = sub[&a].clone();
                sub.insert(b, ta);
            }
            let lt = inst_rule_side(&rule.l, &sub);
            let rt = inst_rule_side(&rule.r, &sub);
            for _ in 0..3 {
                let mut env = BTreeMap::new();
                for s in lt.free().iter().chain(rt.free().iter()) {
                    env.entry(*s).or_insert(rng.below(p as usize) as u32);
                }
                let a = eval_tm(&lt, &env, p);
                let b = eval_tm(&rt, &env, p);
                if a != b {
                    return Err(format!("rule {} is not valid in M_field mod {p}: {lt} = {a} but {rt} = {b} under {env:?}", rule.name));
                }
            }
        }
    }
    Ok(())
}

/// hooks the simulator can place inside searchers, conditions and appliers
#[derive(Clone, Default)]
pub struct RuleHooks {
    /// called with the e-graph from inside the condition (read-only probes, clock jumps)
    pub in_condition: Option<std::rc::Rc<dyn Fn(&dyn std::any::Any)>>,
}

thread_local! {
    /// when set, unconditional rules without the substitution form are built by the crate's own
    /// `Rewrite::new` from their printed patterns (its searcher / applier, `apply_substs_cond`)
    /// instead of the simulator-owned searcher / applier (which carry the probe and clock seams)
    pub static VIA_CRATE: std::cell::Cell<bool> = std::cell::Cell::new(false);
}

fn has_subst(p: &Pat) -> bool {
    match p {
        Pat::Var(_) => false,
        Pat::Node { kids, .. } => kids.iter().any(|(_, k)| has_subst(k)),
        Pat::Subst(..) => true,
    }
}

pub fn make_rewrite<N: Analysis<LA> + 'static>(rule: &Rule, nm: &mut Naming, probe: Option<std::rc::Rc<dyn Fn(&EGraph<LA, N>, &Subst)>>, on_search: Option<std::rc::Rc<dyn Fn()>>) -> Rewrite<LA, N> {
    let l: Pattern<LA> = rule.l.to_pattern::<LA>(nm);
    let r: Pattern<LA> = rule.r.to_pattern::<LA>(nm);
    if VIA_CRATE.with(|c| c.get()) && rule.cond.is_none() && rule.cond2.is_none() && rule.cond_eq.is_none() && !has_subst(&rule.l) && !has_subst(&rule.r) {
        return Rewrite::new(rule.name, &l.to_string(), &r.to_string());
    }
    if let (Some((s1, v1)), Some((s2, v2))) = (rule.cond, rule.cond2) {
        // built entirely by the crate: string patterns, Rewrite::new_if, and / not / slot_free_in
        let n1 = nm.slot(s1).to_string()[1..].to_string();
        let n2 = nm.slot(s2).to_string()[1..].to_string();
        let c1 = slot_free_in::<LA, N>(&n1, &pvar_name(v1));
        let c2 = not(not(slot_free_in::<LA, N>(&n2, &pvar_name(v2))));
        return Rewrite::new_if(rule.name, &l.to_string(), &r.to_string(), and(c1, c2));
    }
    if let Some((a, b)) = rule.cond_eq {
        let (va, vb) = (pvar_name(a), pvar_name(b));
        return Rewrite::new_if(rule.name, &l.to_string(), &r.to_string(), move |subst: &Subst, eg: &EGraph<LA, N>| eg.eq(&subst[&va], &subst[&vb]));
    }
    let l2 = l.clone();
    let name = rule.name.to_string();
    let cond: Option<(Slot, String)> = rule.cond.map(|(s, v)| (nm.slot(s), pvar_name(v)));
    RewriteT {
        searcher: Box::new(move |eg: &EGraph<LA, N>| {
            if let Some(f) = &on_search {
                f();
            }
            ematch_all(eg, &l)
        }),
        applier: Box::new(move |substs: Vec<Subst>, eg: &mut EGraph<LA, N>| {
            for sb in substs {
                if let Some(p) = &probe {
                    p(eg, &sb);
                }
                if let Some((slot, var)) = &cond {
                    if sb[var].slots().contains(slot) {
                        continue;
                    }
                }
                eg.union_instantiations(&l2, &r, &sb, Some(name.clone()));
            }
        }),
    }
    .into()
}
