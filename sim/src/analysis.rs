//! Simulator-owned analyses (semilattice joins): smallest term size, smallest depth, constant
//! value mod p (with a modify hook that adds the constant). One analysis type computes all
//! three, so one e-graph type serves every check.

use crate::langs::*;
use crate::oracle::field::cst_value;
use slotted_egraphs::*;
use std::cell::Cell;

thread_local! {
    /// set when merge sees two different constants for one class (a soundness failure)
    pub static CONST_CONFLICT: Cell<Option<(u32, u32)>> = Cell::new(None);
    /// number of make / merge / modify calls (evidence)
    pub static AN_CALLS: Cell<(u64, u64, u64)> = Cell::new((0, 0, 0));
    /// probe executed from inside make: (kind, countdown)
    pub static MAKE_PROBE: Cell<u64> = Cell::new(0);
}

#[derive(Clone, Debug, PartialEq, Eq)]
pub struct AnData {
    pub size: u64,
    pub depth: u64,
    pub cst: Option<u32>,
    /// bounded height, joined with max: grows along cycles up to the cap
    pub height: u64,
}

pub const HEIGHT_CAP: u64 = 6;

#[derive(Clone, Debug)]
pub struct SimAn {
    pub p: u32,
    /// modify adds num:c to a class with constant c
    pub modify: bool,
}

impl Default for SimAn {
    fn default() -> Self {
        SimAn { p: 5, modify: false }
    }
}

pub fn make_data<L: SimLang>(eg: &EGraph<L, SimAn>, n: &L) -> AnData {
    let p = eg.analysis.p;
    let kids: Vec<&AnData> = n.applied_id_occurrences().iter().map(|a| eg.analysis_data(a.id)).collect();
    let size = kids.iter().fold(1u64, |a, d| a.saturating_add(d.size));
    let depth = 1u64.saturating_add(kids.iter().map(|d| d.depth).max().unwrap_or(0));
    let (name, pay, _, _) = n.unmk();
    let c = |i: usize| kids[i].cst;
    let cst = match name {
        "num" => Some(pay % p),
        "cst" => Some(cst_value(pay, p)),
        "add" => c(0).zip(c(1)).map(|(a, b)| (a + b) % p),
        "mul" => match (c(0), c(1)) {
            (Some(a), Some(b)) => Some((a * b) % p),
            (Some(0), _) | (_, Some(0)) => Some(0),
            _ => None,
        },
        "neg" => c(0).map(|a| (p - a) % p),
        // sum over SUM_RANGE values of a constant
        "sum" => c(0).map(|a| (crate::oracle::field::SUM_RANGE * a) % p),
        "sumr" => match (c(0), c(1)) {
            (Some(r), Some(a)) => Some((r * ((crate::oracle::field::SUM_RANGE * a) % p)) % p),
            (Some(0), _) | (_, Some(0)) => Some(0),
            _ => None,
        },
        // let x = e in c  is c
        "let" if L::NAME == "LA" => c(0),
        _ => None,
    };
    let height = HEIGHT_CAP.min(1 + kids.iter().map(|d| d.height).max().unwrap_or(0));
    AnData { size, depth, cst, height }
}

pub fn merge_data(l: AnData, r: AnData) -> AnData {
    let cst = match (l.cst, r.cst) {
        (Some(a), Some(b)) => {
            if a != b {
                CONST_CONFLICT.with(|c| {
                    if c.get().is_none() {
                        c.set(Some((a, b)))
                    }
                });
            }
            Some(a.min(b))
        }
        (Some(a), None) | (None, Some(a)) => Some(a),
        (None, None) => None,
    };
    AnData { size: l.size.min(r.size), depth: l.depth.min(r.depth), cst, height: l.height.max(r.height) }
}

impl<L: SimLang> Analysis<L> for SimAn {
    type Data = AnData;
    fn make(eg: &EGraph<L, Self>, enode: &L) -> AnData {
        AN_CALLS.with(|c| {
            let (a, b, d) = c.get();
            c.set((a + 1, b, d))
        });
        // K3: a read-only probe from inside the library (pending may be non-empty here)
        let mp = MAKE_PROBE.with(|m| m.get());
        if mp > 0 {
            MAKE_PROBE.with(|m| m.set(mp - 1));
            if mp % 3 == 0 {
                for a in enode.applied_id_occurrences() {
                    let _ = eg.find_applied_id(a);
                    let _ = eg.slots(eg.find_applied_id(a).id);
                }
            }
        }
        make_data(eg, enode)
    }
    fn merge(l: AnData, r: AnData) -> AnData {
        AN_CALLS.with(|c| {
            let (a, b, d) = c.get();
            c.set((a, b + 1, d))
        });
        merge_data(l, r)
    }
    fn modify(eg: &mut EGraph<L, Self>, id: Id) {
        AN_CALLS.with(|c| {
            let (a, b, d) = c.get();
            c.set((a, b, d + 1))
        });
        if eg.analysis.modify {
            // a hook may read the class it is called for (the crate hands `modify` the leader of the class at
            // the moment of the call): `enodes` refuses a dead class
            let _ = eg.enodes(id).len();
        }
        if eg.analysis.modify && L::NAME == "LS" {
            // `g(s, x) = x` as a modify hook: the class of every inserted g-node is united with its child
            // from inside the rebuild of the `add` that created it (the new class usually dies at once,
            // with or without its parameters). The crate calls `modify` for new classes and for classes
            // whose datum changed only, so the hook must not depend on anything that can become true
            // later without a datum change; a g-node enters a class only by being inserted.
            let id = eg.find_applied_id(&eg.mk_identity_applied_id(id)).id;
            let mut todo: Vec<AppliedId> = Vec::new();
            for n in eg.enodes(id) {
                let (name, _, _, _) = n.unmk();
                let kids = n.applied_id_occurrences();
                if name == "g" && kids.len() == 1 {
                    todo.push(kids[0].clone());
                }
            }
            // (the children are spelled in the slot names of class `id`: so is `this`, once, for all of them -
            // the class may be merged away by the first union; an invocation of a dead class stays valid)
            let this = eg.mk_identity_applied_id(id);
            for x in todo {
                eg.union(&this, &x);
            }
            return;
        }
        if !eg.analysis.modify || L::NAME != "LA" {
            return;
        }
        {
            // unit laws as part of the hook: `a * 1 = a`, `a + 0 = a` (model-valid). Unlike constant folding
            // they unite the class - usually the one `add` has just created - with an older class that HAS
            // parameters. Whether the hook gets to see a given e-node is up to the crate (it calls `modify`
            // for new classes and for classes whose datum changed); the oracles do not depend on it firing.
            let id0 = eg.find_applied_id(&eg.mk_identity_applied_id(id)).id;
            let mut todo: Vec<AppliedId> = Vec::new();
            for n in eg.enodes(id0) {
                let (name, _, _, _) = n.unmk();
                let kids = n.applied_id_occurrences();
                if kids.len() == 2 && (name == "mul" || name == "add") {
                    let unit = if name == "mul" { 1 } else { 0 };
                    if eg.analysis_data(kids[1].id).cst == Some(unit) {
                        todo.push(kids[0].clone());
                    } else if eg.analysis_data(kids[0].id).cst == Some(unit) {
                        todo.push(kids[1].clone());
                    }
                }
            }
            let this = eg.mk_identity_applied_id(id0);
            for x in todo {
                eg.union(&this, &x);
            }
        }
        let id = eg.find_applied_id(&eg.mk_identity_applied_id(id)).id;
        if let Some(c) = eg.analysis_data(id).cst {
            let mut nm = Naming::new(0);
            let node = L::mk(&crate::tm::Tm::pay("num", c), &mut nm);
            let added = eg.add(node);
            let this = eg.mk_identity_applied_id(eg.find_applied_id(&eg.mk_identity_applied_id(id)).id);
            // a class with a constant value does not depend on its slots
            eg.union(&added, &this);
        }
    }
}
