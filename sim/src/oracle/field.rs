//! M_field: arithmetic over the prime field F_p with a summation binder and a let binder.
//! Direct evaluator on simulator terms, and class denotation tables for an e-graph over LA.

use crate::langs::*;
use crate::tm::*;
use slotted_egraphs::*;
use std::collections::{BTreeMap, HashMap};

/// The summation binder ranges over {0, .., SUM_RANGE-1}, a proper subset of the field: a sum over
/// the whole field annihilates every polynomial of degree below p-1, which would make almost every
/// wrong rewrite under a summation model-valid.
pub const SUM_RANGE: u32 = 2;

pub fn cst_value(c: u32, p: u32) -> u32 {
    (crate::rng::mix(c as u64 ^ 0xC57) % p as u64) as u32
}

/// value of a term under an environment for its free slots (missing slots: panic)
pub fn eval_tm(t: &Tm, env: &BTreeMap<S, u32>, p: u32) -> u32 {
    match t.name() {
        "num" => t.pay % p,
        "cst" => cst_value(t.pay, p),
        "var" => *env.get(&t.slots[0]).unwrap_or_else(|| panic!("harness: unbound slot ${} in eval", t.slots[0])),
        "add" => (eval_tm(&t.kids[0].t, env, p) + eval_tm(&t.kids[1].t, env, p)) % p,
        "mul" => (eval_tm(&t.kids[0].t, env, p) * eval_tm(&t.kids[1].t, env, p)) % p,
        "neg" => (p - eval_tm(&t.kids[0].t, env, p)) % p,
        "sum" => {
            let x = t.kids[0].binders[0];
            let mut e = env.clone();
            let mut acc = 0;
            for v in 0..SUM_RANGE {
                e.insert(x, v);
                acc = (acc + eval_tm(&t.kids[0].t, &e, p)) % p;
            }
            acc
        }
        "sumr" => {
            let r = eval_tm(&t.kids[0].t, env, p);
            let x = t.kids[1].binders[0];
            let mut e = env.clone();
            let mut acc = 0;
            for v in 0..SUM_RANGE {
                e.insert(x, v);
                acc = (acc + eval_tm(&t.kids[1].t, &e, p)) % p;
            }
            (r * acc) % p
        }
        "let" => {
            let x = t.kids[0].binders[0];
            let ve = eval_tm(&t.kids[1].t, env, p);
            let mut e = env.clone();
            e.insert(x, ve);
            eval_tm(&t.kids[0].t, &e, p)
        }
        o => panic!("harness: op {o} has no meaning in M_field"),
    }
}

/// denotation of a class: its slots in a fixed order and the value for every environment
#[derive(Clone, Debug)]
pub struct Table {
    pub slots: Vec<Slot>,
    /// index = sum env[i] * p^i
    pub vals: Vec<u32>,
}

impl Table {
    pub fn lookup(&self, env: &HashMap<Slot, u32>, p: u32) -> u32 {
        let mut idx = 0usize;
        let mut mul = 1usize;
        for s in &self.slots {
            idx += (*env.get(s).expect("harness: table lookup without slot") as usize) * mul;
            mul *= p as usize;
        }
        self.vals[idx]
    }
    pub fn is_constant(&self) -> Option<u32> {
        let c = self.vals[0];
        if self.vals.iter().all(|v| *v == c) {
            Some(c)
        } else {
            None
        }
    }
}

fn envs(slots: &[Slot], p: u32) -> Vec<HashMap<Slot, u32>> {
    let k = slots.len();
    let total = (p as usize).pow(k as u32);
    let mut out = Vec::with_capacity(total);
    for idx in 0..total {
        let mut e = HashMap::new();
        let mut r = idx;
        for s in slots {
            e.insert(*s, (r % p as usize) as u32);
            r /= p as usize;
        }
        out.push(e);
    }
    out
}

/// Where the value of a child class comes from: full tables (classes with up to MAX_TABLE_SLOTS slots)
/// or lazily evaluated representatives (any number of slots).
pub trait ClassVals {
    /// `env` holds the values of the class slots the invocation passes; the rest is taken from `redundant`
    fn class_value(&self, id: Id, env: HashMap<Slot, u32>, redundant: &dyn Fn(Slot) -> u32, p: u32) -> Option<u32>;
}

impl ClassVals for HashMap<Id, Table> {
    fn class_value(&self, id: Id, mut e: HashMap<Slot, u32>, redundant: &dyn Fn(Slot) -> u32, p: u32) -> Option<u32> {
        let t = self.get(&id)?;
        // table slots not passed by the invocation cannot exist for a canonical invocation
        for s in &t.slots {
            if !e.contains_key(s) {
                e.insert(*s, redundant(*s));
            }
        }
        Some(t.lookup(&e, p))
    }
}

/// Lazily evaluated class values: every class with a finite term gets one representative e-node whose
/// children got theirs earlier (so the dependency is acyclic); the value of a class under an environment is
/// the value of its representative, memoised. Works for any number of slots (no tables).
pub struct LazyVals {
    pub rep: HashMap<Id, LA>,
    pub slots: HashMap<Id, Vec<Slot>>,
    memo: std::cell::RefCell<HashMap<(Id, Vec<u32>), u32>>,
}

pub fn lazy_vals<N: Analysis<LA>>(eg: &EGraph<LA, N>) -> LazyVals {
    let mut ids = eg.ids();
    ids.sort();
    let nodes: Vec<(Id, Vec<LA>)> = ids
        .iter()
        .map(|i| {
            let mut ns: Vec<LA> = eg.enodes(*i).into_iter().collect();
            ns.sort();
            (*i, ns)
        })
        .collect();
    let mut rep: HashMap<Id, LA> = HashMap::new();
    loop {
        let mut changed = false;
        for (id, ns) in &nodes {
            if rep.contains_key(id) {
                continue;
            }
            if let Some(n) = ns.iter().find(|n| n.applied_id_occurrences().iter().all(|a| rep.contains_key(&a.id))) {
                rep.insert(*id, n.clone());
                changed = true;
            }
        }
        if !changed {
            break;
        }
    }
    let slots = ids
        .iter()
        .map(|i| {
            let mut sl: Vec<Slot> = eg.slots(*i).iter().copied().collect();
            sl.sort();
            (*i, sl)
        })
        .collect();
    LazyVals { rep, slots, memo: Default::default() }
}

impl ClassVals for LazyVals {
    fn class_value(&self, id: Id, e: HashMap<Slot, u32>, redundant: &dyn Fn(Slot) -> u32, p: u32) -> Option<u32> {
        let n = self.rep.get(&id)?;
        let sl = self.slots.get(&id)?;
        let mut full: HashMap<Slot, u32> = HashMap::new();
        let mut key: Vec<u32> = Vec::with_capacity(sl.len());
        for s in sl {
            let v = match e.get(s) {
                Some(v) => *v,
                None => redundant(*s),
            };
            full.insert(*s, v);
            key.push(v);
        }
        if let Some(v) = self.memo.borrow().get(&(id, key.clone())) {
            return Some(*v);
        }
        // slots of the representative that the class does not have are redundant: any value will do
        let v = eval_node(n, &full, &|_| 0, self, p)?;
        self.memo.borrow_mut().insert((id, key), v);
        Some(v)
    }
}

/// Classes with more than MAX_TABLE_SLOTS slots: every e-node against the lazily evaluated value of its
/// class under a few random environments (and two assignments of the e-node's redundant slots).
pub fn check_wide<N: Analysis<LA>>(eg: &EGraph<LA, N>, lv: &LazyVals, p: u32, salt: u64) -> Result<u64, String> {
    let mut checked = 0u64;
    let mut ids = eg.ids();
    ids.sort();
    for id in ids {
        let Some(sl) = lv.slots.get(&id) else { continue };
        if sl.len() <= MAX_TABLE_SLOTS || !lv.rep.contains_key(&id) {
            continue;
        }
        let mut ns: Vec<LA> = eg.enodes(id).into_iter().collect();
        ns.sort();
        for (ni, n) in ns.iter().enumerate() {
            for t in 0..3u64 {
                let mut env: HashMap<Slot, u32> = HashMap::new();
                for (k, s) in sl.iter().enumerate() {
                    env.insert(*s, (crate::rng::mix(salt ^ (id.0 as u64) << 20 ^ (ni as u64) << 8 ^ t << 40 ^ k as u64) % p as u64) as u32);
                }
                let red = |s: Slot| -> u32 {
                    let mut h = std::collections::hash_map::DefaultHasher::new();
                    use std::hash::{Hash, Hasher};
                    s.hash(&mut h);
                    (crate::rng::mix(h.finish() ^ salt ^ t.wrapping_mul(0x9E37)) % p as u64) as u32
                };
                let Some(want) = lv.class_value(id, env.clone(), &|_| 0, p) else { continue };
                if let Some(v) = eval_node(n, &env, &red, lv, p) {
                    checked += 1;
                    if v != want {
                        let mut ev: Vec<(Slot, u32)> = env.iter().map(|(a, b)| (*a, *b)).collect();
                        ev.sort();
                        return Err(format!("class {id:?}{sl:?} ({} slots): e-node {n:?} evaluates to {v} but the class's representative {:?} evaluates to {want} under {ev:?} (mod {p})", sl.len(), lv.rep[&id]));
                    }
                }
            }
        }
    }
    Ok(checked)
}

/// value of an e-node under `env` (covering class slots; other public slots are redundant and
/// taken from `redundant`), given the values of the child classes. None if a child is unknown.
pub fn eval_node(n: &LA, env: &HashMap<Slot, u32>, redundant: &dyn Fn(Slot) -> u32, tables: &dyn ClassVals, p: u32) -> Option<u32> {
    let get = |s: Slot, extra: &[(Slot, u32)]| -> u32 {
        for (x, v) in extra.iter().rev() {
            if *x == s {
                return *v;
            }
        }
        match env.get(&s) {
            Some(v) => *v,
            None => redundant(s),
        }
    };
    let child = |a: &AppliedId, extra: &[(Slot, u32)]| -> Option<u32> {
        let mut e: HashMap<Slot, u32> = HashMap::new();
        for (k, v) in a.m.iter() {
            e.insert(k, get(v, extra));
        }
        tables.class_value(a.id, e, redundant, p)
    };
    Some(match n {
        LA::Num(c) => c % p,
        LA::Cst(c) => cst_value((-(*c) - 1) as u32, p),
        LA::Var(s) => get(*s, &[]),
        LA::Add(a, b) => (child(a, &[])? + child(b, &[])?) % p,
        LA::Mul(a, b) => (child(a, &[])? * child(b, &[])?) % p,
        LA::Neg(a) => (p - child(a, &[])?) % p,
        LA::Sum(b) => {
            let mut acc = 0;
            for v in 0..SUM_RANGE {
                acc = (acc + child(&b.elem, &[(b.slot, v)])?) % p;
            }
            acc
        }
        LA::Sumr(r, b) => {
            let rv = child(r, &[])?;
            let mut acc = 0;
            for v in 0..SUM_RANGE {
                acc = (acc + child(&b.elem, &[(b.slot, v)])?) % p;
            }
            (rv * acc) % p
        }
        LA::Let(b, e) => {
            let ve = child(e, &[])?;
            child(&b.elem, &[(b.slot, ve)])?
        }
    })
}

pub const MAX_TABLE_SLOTS: usize = 3;

/// Least-fixpoint pass: a class's table is set from the first e-node whose children are known.
/// Classes with more than MAX_TABLE_SLOTS slots or without a finite term stay unknown.
pub fn class_tables<N: Analysis<LA>>(eg: &EGraph<LA, N>, p: u32) -> HashMap<Id, Table> {
    let mut tables: HashMap<Id, Table> = HashMap::new();
    let ids = eg.ids();
    let nodes: Vec<(Id, Vec<Slot>, Vec<LA>)> = ids
        .iter()
        .map(|i| {
            let mut sl: Vec<Slot> = eg.slots(*i).iter().copied().collect();
            sl.sort();
            let mut ns: Vec<LA> = eg.enodes(*i).into_iter().collect();
            ns.sort();
            (*i, sl, ns)
        })
        .collect();
    loop {
        let mut changed = false;
        for (id, sl, ns) in &nodes {
            if tables.contains_key(id) || sl.len() > MAX_TABLE_SLOTS {
                continue;
            }
            'node: for n in ns {
                let mut vals = Vec::new();
                for e in envs(sl, p) {
                    match eval_node(n, &e, &|_| 0, &tables, p) {
                        Some(v) => vals.push(v),
                        None => continue 'node,
                    }
                }
                tables.insert(*id, Table { slots: sl.clone(), vals });
                changed = true;
                break;
            }
        }
        if !changed {
            break;
        }
    }
    tables
}

/// Checks that every e-node of every class with a known table denotes that table, also when the
/// redundant slots of the e-node take other values. Returns a description of the first mismatch.
pub fn check_tables<N: Analysis<LA>>(eg: &EGraph<LA, N>, tables: &HashMap<Id, Table>, p: u32, salt: u64) -> Result<u64, String> {
    let mut checked = 0u64;
    for id in eg.ids() {
        let Some(t) = tables.get(&id) else { continue };
        let mut ns: Vec<LA> = eg.enodes(id).into_iter().collect();
        ns.sort();
        for n in ns {
            for (ei, e) in envs(&t.slots, p).into_iter().enumerate() {
                let want = t.vals[ei];
                for variant in 0..2u64 {
                    let red = |s: Slot| -> u32 {
                        let mut h = std::collections::hash_map::DefaultHasher::new();
                        use std::hash::{Hash, Hasher};
                        s.hash(&mut h);
                        (crate::rng::mix(h.finish() ^ salt ^ variant.wrapping_mul(0x9E37)) % p as u64) as u32
                    };
                    match eval_node(&n, &e, &red, tables, p) {
                        None => {}
                        Some(v) => {
                            checked += 1;
                            if v != want {
                                return Err(format!(
                                    "class {id:?}{:?}: e-node {n:?} evaluates to {v} but the class denotes {want} under {:?} (mod {p}; redundant slots variant {variant})",
                                    t.slots,
                                    {
                                        let mut ev: Vec<(Slot, u32)> = e.iter().map(|(a, b)| (*a, *b)).collect();
                                        ev.sort();
                                        ev
                                    }
                                ));
                            }
                        }
                    }
                }
            }
        }
    }
    Ok(checked)
}
