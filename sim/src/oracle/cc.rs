//! M_cc: brute-force ground nominal congruence closure over a finite name pool.
//!
//! Shares no code and no concept (shapes, groups, slot maps) with the crate under test.
//! Names are the numbers 0..n; a tracked term's free slots must be < n.
//! See DESIGN.md §6.1 for the semantics and the pool-size argument.

use crate::tm::*;
use std::collections::HashMap;
use std::hash::{BuildHasherDefault, Hasher};

#[derive(Default, Clone)]
pub struct FastHasher(u64);
impl Hasher for FastHasher {
    fn write(&mut self, bytes: &[u8]) {
        for b in bytes {
            self.0 = (self.0 ^ (*b as u64)).wrapping_mul(0x100_0000_01b3);
        }
    }
    fn write_u32(&mut self, i: u32) {
        self.0 = (self.0.rotate_left(5) ^ (i as u64)).wrapping_mul(0x517c_c1b7_2722_0a95);
    }
    fn write_u8(&mut self, i: u8) {
        self.write_u32(i as u32)
    }
    fn write_usize(&mut self, i: usize) {
        self.0 = (self.0.rotate_left(5) ^ (i as u64)).wrapping_mul(0x517c_c1b7_2722_0a95);
    }
    fn write_u64(&mut self, i: u64) {
        self.0 = (self.0.rotate_left(5) ^ i).wrapping_mul(0x517c_c1b7_2722_0a95);
    }
    fn finish(&self) -> u64 {
        self.0 ^ (self.0 >> 29)
    }
}
type FMap<K, V> = HashMap<K, V, BuildHasherDefault<FastHasher>>;

#[derive(Clone, Debug)]
enum Arg {
    Free(usize),
    Bound(usize), // index into the used-binder choice vector
}

#[derive(Clone, Debug)]
struct CKid {
    cid: usize,
    nchoice: usize,
    args: Vec<Arg>,
}

#[derive(Clone, Debug)]
struct CTerm {
    tm: Tm,
    k: usize,
    op: u8,
    pay: u32,
    slot_args: Vec<usize>,
    kids: Vec<CKid>,
    /// first element index of this term's instances; instances are contiguous
    base: u32,
    ninst: u32,
}

pub struct Cc {
    pub n: usize,
    cterms: Vec<CTerm>,
    cindex: HashMap<Tm, usize>,
    /// element -> (cid, tuple)
    elems: Vec<(u32, Vec<u8>)>,
    uf: Vec<u32>,
    axioms: Vec<(Tm, Tm)>,
    axioms_applied: usize,
    cterms_enumerated: usize,
    dirty: bool,
    pub stats_passes: u64,
    pub stats_unions: u64,
}

fn falling(n: usize, k: usize) -> usize {
    let mut r = 1usize;
    for i in 0..k {
        r = r.saturating_mul(n - i);
    }
    r
}

/// rank of an injective k-tuple over 0..n in lexicographic enumeration order
fn rank(n: usize, t: &[u8]) -> usize {
    let k = t.len();
    let mut used = [false; 64];
    let mut r = 0usize;
    for i in 0..k {
        let mut smaller = 0usize;
        for v in 0..(t[i] as usize) {
            if !used[v] {
                smaller += 1;
            }
        }
        r += smaller * falling(n - i - 1, k - i - 1);
        used[t[i] as usize] = true;
    }
    r
}

fn enumerate_tuples(n: usize, k: usize, out: &mut Vec<Vec<u8>>) {
    fn rec(n: usize, k: usize, cur: &mut Vec<u8>, used: &mut [bool], out: &mut Vec<Vec<u8>>) {
        if cur.len() == k {
            out.push(cur.clone());
            return;
        }
        for v in 0..n {
            if !used[v] {
                used[v] = true;
                cur.push(v as u8);
                rec(n, k, cur, used, out);
                cur.pop();
                used[v] = false;
            }
        }
    }
    let mut used = vec![false; n];
    rec(n, k, &mut Vec::new(), &mut used, out);
}

impl Cc {
    pub fn new(n: usize) -> Cc {
        assert!(n < 64);
        Cc {
            n,
            cterms: Vec::new(),
            cindex: HashMap::new(),
            elems: Vec::new(),
            uf: Vec::new(),
            axioms: Vec::new(),
            axioms_applied: 0,
            cterms_enumerated: 0,
            dirty: false,
            stats_passes: 0,
            stats_unions: 0,
        }
    }

    /// upper bound on the number of elements the universe would have for these terms
    pub fn universe_size(n: usize, terms: &[Tm]) -> usize {
        let mut seen = std::collections::HashSet::new();
        let mut total = 0usize;
        for t in terms {
            for s in t.subterms() {
                let (c, args) = s.canon();
                if seen.insert(c) {
                    if args.len() > n {
                        return usize::MAX;
                    }
                    total = total.saturating_add(falling(n, args.len()));
                }
            }
        }
        total
    }

    pub fn num_elems(&self) -> usize {
        self.elems.len()
    }
    pub fn num_terms(&self) -> usize {
        self.cterms.len()
    }

    fn intern(&mut self, t: &Tm) -> (usize, Vec<S>) {
        let (c, args) = t.canon();
        if let Some(i) = self.cindex.get(&c) {
            return (*i, args);
        }
        // children first
        let mut kids = Vec::new();
        for k in &c.kids {
            let (kc, kargs) = self.intern(&k.t);
            // kargs: names in c's canonical namespace. Every binder of the kid gets a pool
            // name in a signature (also a binder the body does not use), and that name is part
            // of the signature: two binder nodes are merged only under the SAME bound name,
            // which has to be fresh for both of them.
            let nb = k.binders.len();
            let args_k = kargs
                .iter()
                .map(|a| {
                    if *a >= CANON_BOUND {
                        let l = (*a - CANON_BOUND) as usize;
                        assert!(l < nb);
                        Arg::Bound(l)
                    } else {
                        Arg::Free(*a as usize)
                    }
                })
                .collect();
            let used = vec![0; nb];
            kids.push(CKid { cid: kc, nchoice: used.len(), args: args_k });
        }
        assert!(kids.iter().filter(|k| k.nchoice > 0).count() <= 1, "at most one binding kid supported");
        let id = self.cterms.len();
        assert!(args.len() <= self.n, "term has more free slots than the pool");
        self.cterms.push(CTerm {
            tm: c.clone(),
            k: args.len(),
            op: c.op,
            pay: c.pay,
            slot_args: c.slots.iter().map(|s| *s as usize).collect(),
            kids,
            base: 0,
            ninst: 0,
        });
        self.cindex.insert(c, id);
        self.dirty = true;
        (id, args)
    }

    /// adds `t` and all its subterms (binder bodies with the bound slot free) to the universe
    pub fn track(&mut self, t: &Tm) {
        self.intern(t);
    }

    pub fn is_tracked(&self, t: &Tm) -> bool {
        self.cindex.contains_key(&t.canon().0)
    }

    /// asserts a = b for every injective instantiation of the union of their free slots
    pub fn assert_eq(&mut self, a: &Tm, b: &Tm) {
        self.track(a);
        self.track(b);
        self.axioms.push((a.clone(), b.clone()));
        self.dirty = true;
    }

    fn find(&mut self, mut x: u32) -> u32 {
        while self.uf[x as usize] != x {
            let p = self.uf[x as usize];
            self.uf[x as usize] = self.uf[p as usize];
            x = self.uf[x as usize];
        }
        x
    }
    fn find_ro(&self, mut x: u32) -> u32 {
        while self.uf[x as usize] != x {
            x = self.uf[x as usize];
        }
        x
    }
    fn union(&mut self, a: u32, b: u32) -> bool {
        let a = self.find(a);
        let b = self.find(b);
        if a == b {
            return false;
        }
        let (lo, hi) = if a < b { (a, b) } else { (b, a) };
        self.uf[hi as usize] = lo;
        self.stats_unions += 1;
        true
    }

    fn elem_of(&self, cid: usize, tuple: &[u8]) -> u32 {
        let ct = &self.cterms[cid];
        debug_assert_eq!(ct.k, tuple.len());
        ct.base + rank(self.n, tuple) as u32
    }

    fn elem_of_tm(&self, t: &Tm) -> Option<u32> {
        let (c, args) = t.canon();
        let cid = *self.cindex.get(&c)?;
        let tuple: Vec<u8> = args
            .iter()
            .map(|a| {
                assert!((*a as usize) < self.n, "slot ${a} outside the pool of {}", self.n);
                *a as u8
            })
            .collect();
        Some(self.elem_of(cid, &tuple))
    }

    /// brings the closure up to date
    pub fn close(&mut self) {
        if !self.dirty {
            return;
        }
        self.dirty = false;
        // 1. enumerate instances of new terms
        for cid in self.cterms_enumerated..self.cterms.len() {
            let k = self.cterms[cid].k;
            let base = self.elems.len() as u32;
            let mut tuples = Vec::new();
            enumerate_tuples(self.n, k, &mut tuples);
            self.cterms[cid].base = base;
            self.cterms[cid].ninst = tuples.len() as u32;
            for t in tuples {
                let id = self.elems.len() as u32;
                self.elems.push((cid as u32, t));
                self.uf.push(id);
            }
        }
        self.cterms_enumerated = self.cterms.len();

        // 2. axioms
        for ai in self.axioms_applied..self.axioms.len() {
            let (a, b) = self.axioms[ai].clone();
            let (ca, aargs) = a.canon();
            let (cb, bargs) = b.canon();
            let cida = self.cindex[&ca];
            let cidb = self.cindex[&cb];
            let mut names: Vec<S> = aargs.clone();
            for x in &bargs {
                if !names.contains(x) {
                    names.push(*x);
                }
            }
            assert!(names.len() <= self.n, "axiom mentions more slots than the pool");
            let apos: Vec<usize> = aargs.iter().map(|x| names.iter().position(|y| y == x).unwrap()).collect();
            let bpos: Vec<usize> = bargs.iter().map(|x| names.iter().position(|y| y == x).unwrap()).collect();
            let mut tuples = Vec::new();
            enumerate_tuples(self.n, names.len(), &mut tuples);
            let mut ta = vec![0u8; apos.len()];
            let mut tb = vec![0u8; bpos.len()];
            for tau in &tuples {
                for (i, p) in apos.iter().enumerate() {
                    ta[i] = tau[*p];
                }
                for (i, p) in bpos.iter().enumerate() {
                    tb[i] = tau[*p];
                }
                let ea = self.elem_of(cida, &ta);
                let eb = self.elem_of(cidb, &tb);
                self.union(ea, eb);
            }
        }
        self.axioms_applied = self.axioms.len();

        // 3. congruence fixpoint
        loop {
            self.stats_passes += 1;
            let mut changed = false;
            let mut table: FMap<Vec<u32>, u32> = FMap::default();
            let mut key: Vec<u32> = Vec::new();
            let mut kt: Vec<u8> = Vec::new();
            for e in 0..self.elems.len() as u32 {
                let (cid, tuple) = self.elems[e as usize].clone();
                let ct = self.cterms[cid as usize].clone();
                let bk = ct.kids.iter().position(|k| k.nchoice > 0);
                // choices for the binding kid
                let mut choices: Vec<Vec<u8>> = Vec::new();
                if let Some(bi) = bk {
                    let kid = &ct.kids[bi];
                    let mut taken = [false; 64];
                    for a in &kid.args {
                        if let Arg::Free(i) = a {
                            taken[tuple[*i] as usize] = true;
                        }
                    }
                    let avail: Vec<u8> = (0..self.n as u8).filter(|p| !taken[*p as usize]).collect();
                    match kid.nchoice {
                        1 => {
                            for p in &avail {
                                choices.push(vec![*p]);
                            }
                        }
                        2 => {
                            for p in &avail {
                                for q in &avail {
                                    if p != q {
                                        choices.push(vec![*p, *q]);
                                    }
                                }
                            }
                        }
                        _ => panic!("more than two used binders on one kid"),
                    }
                } else {
                    choices.push(Vec::new());
                }
                for ch in &choices {
                    key.clear();
                    key.push(ct.op as u32);
                    key.push(ct.pay);
                    key.push(ct.slot_args.len() as u32);
                    for s in &ct.slot_args {
                        key.push(tuple[*s] as u32);
                    }
                    for p in ch {
                        key.push(1000 + *p as u32);
                    }
                    for kid in &ct.kids {
                        kt.clear();
                        for a in &kid.args {
                            match a {
                                Arg::Free(i) => kt.push(tuple[*i]),
                                Arg::Bound(b) => kt.push(ch[*b]),
                            }
                        }
                        let ke = self.elem_of(kid.cid, &kt);
                        let r = self.find(ke);
                        key.push(r);
                    }
                    if let Some(o) = table.get(&key) {
                        let o = *o;
                        if self.union(o, e) {
                            changed = true;
                        }
                    } else {
                        table.insert(key.clone(), e);
                    }
                }
            }
            if !changed {
                break;
            }
        }
    }

    /// Are the two terms (written over the common name space 0..n) equal?
    /// Both must be tracked. Call `close()` first.
    pub fn equal(&self, s: &Tm, t: &Tm) -> bool {
        assert!(!self.dirty, "close() first");
        let a = self.elem_of_tm(s).expect("untracked term");
        let b = self.elem_of_tm(t).expect("untracked term");
        self.find_ro(a) == self.find_ro(b)
    }

    pub fn try_equal(&self, s: &Tm, t: &Tm) -> Option<bool> {
        assert!(!self.dirty, "close() first");
        let a = self.elem_of_tm(s)?;
        let b = self.elem_of_tm(t)?;
        Some(self.find_ro(a) == self.find_ro(b))
    }

    /// is free slot x of t redundant (t = (x y).t for a name y not free in t)?
    pub fn redundant(&self, t: &Tm, x: S) -> bool {
        let free = t.free();
        assert!(free.contains(&x));
        let y = (0..self.n as S).find(|y| !free.contains(y)).expect("pool too small for redundancy query");
        let mut m = std::collections::BTreeMap::new();
        m.insert(x, y);
        let mut fresh = CANON_BOUND / 2;
        let t2 = t.rename(&m, &mut fresh);
        self.equal(t, &t2)
    }

    pub fn nonredundant(&self, t: &Tm) -> Vec<S> {
        t.free_vec().into_iter().filter(|x| !self.redundant(t, *x)).collect()
    }

    /// all instances (term, names) equal to `s`, as renamed copies of tracked canonical terms
    pub fn class_instances(&self, s: &Tm) -> Vec<Tm> {
        let a = self.elem_of_tm(s).expect("untracked");
        let r = self.find_ro(a);
        let mut out = Vec::new();
        for e in 0..self.elems.len() as u32 {
            if self.find_ro(e) == r {
                let (cid, tuple) = &self.elems[e as usize];
                let ct = &self.cterms[*cid as usize];
                let m: std::collections::BTreeMap<S, S> =
                    tuple.iter().enumerate().map(|(i, p)| (i as S, *p as S)).collect();
                out.push(ct.tm.rename_keep_binders(&m));
            }
        }
        out
    }

    /// root -> members, for repeated instance enumeration
    pub fn class_map(&self) -> HashMap<u32, Vec<u32>> {
        let mut m: HashMap<u32, Vec<u32>> = HashMap::new();
        for e in 0..self.elems.len() as u32 {
            m.entry(self.find_ro(e)).or_default().push(e);
        }
        m
    }

    pub fn instances_equal_to(&self, s: &Tm, classes: &HashMap<u32, Vec<u32>>) -> Vec<Tm> {
        let a = self.elem_of_tm(s).expect("untracked");
        let r = self.find_ro(a);
        let mut out = Vec::new();
        for e in &classes[&r] {
            let (cid, tuple) = &self.elems[*e as usize];
            let ct = &self.cterms[*cid as usize];
            let m: std::collections::BTreeMap<S, S> =
                tuple.iter().enumerate().map(|(i, p)| (i as S, *p as S)).collect();
            out.push(ct.tm.rename_keep_binders(&m));
        }
        out
    }

    /// number of elements in the class of s (cheap size probe)
    pub fn class_size(&self, s: &Tm) -> usize {
        let a = self.elem_of_tm(s).expect("untracked");
        let r = self.find_ro(a);
        (0..self.elems.len() as u32).filter(|e| self.find_ro(*e) == r).count()
    }

    /// number of distinct classes among identity-instances of the given terms
    pub fn canonical_terms(&self) -> Vec<Tm> {
        self.cterms.iter().map(|c| c.tm.clone()).collect()
    }
}

#[cfg(test)]
mod tests {
    use super::*;
    fn t(s: &str) -> Tm {
        parse_tm(s).unwrap()
    }

    #[test]
    fn xy_eq_yz_redundancy() {
        // f(x,y) = f(y,z)  => both slots redundant
        let mut cc = Cc::new(7);
        cc.assert_eq(&t("(p2 $0 $1)"), &t("(p2 $1 $2)"));
        cc.close();
        assert!(cc.redundant(&t("(p2 $0 $1)"), 0));
        assert!(cc.redundant(&t("(p2 $0 $1)"), 1));
        assert!(cc.equal(&t("(p2 $0 $1)"), &t("(p2 $3 $4)")));
    }

    #[test]
    fn symmetry_groups() {
        // 3-cycle only: C3, transposition not derivable
        let mut cc = Cc::new(10);
        cc.assert_eq(&t("(p3 $0 $1 $2)"), &t("(p3 $1 $2 $0)"));
        cc.close();
        assert!(cc.equal(&t("(p3 $0 $1 $2)"), &t("(p3 $2 $0 $1)")));
        assert!(!cc.equal(&t("(p3 $0 $1 $2)"), &t("(p3 $1 $0 $2)")));
        assert!(!cc.redundant(&t("(p3 $0 $1 $2)"), 0));
        // adding a transposition gives S3
        cc.assert_eq(&t("(p3 $0 $1 $2)"), &t("(p3 $1 $0 $2)"));
        cc.close();
        assert!(cc.equal(&t("(p3 $0 $1 $2)"), &t("(p3 $2 $1 $0)")));
    }

    #[test]
    fn congruence_under_binders() {
        let mut cc = Cc::new(7);
        cc.track(&t("(lam [$5] (p2 $5 $0))"));
        cc.track(&t("(lam [$6] (g $6 (p1 $0)))"));
        cc.assert_eq(&t("(p2 $0 $1)"), &t("(g $0 (p1 $1))"));
        cc.close();
        assert!(cc.equal(&t("(lam [$5] (p2 $5 $0))"), &t("(lam [$6] (g $6 (p1 $0)))")));
        assert!(!cc.equal(&t("(lam [$5] (p2 $5 $0))"), &t("(lam [$6] (g $6 (p1 $1)))")));
        // alpha
        assert!(cc.equal(&t("(lam [$5] (p2 $5 $0))"), &t("(lam [$3] (p2 $3 $0))")));
    }

    #[test]
    fn vacuous_binder_and_redundancy() {
        // p2(x,y) = k1  => lam x. p2(x,y) = lam x. k1 and both slots redundant
        let mut cc = Cc::new(7);
        cc.track(&t("(lam [$5] (p2 $5 $0))"));
        cc.track(&t("(lam [$5] k:1)"));
        cc.assert_eq(&t("(p2 $0 $1)"), &t("k:1"));
        cc.close();
        assert!(cc.equal(&t("(lam [$5] (p2 $5 $0))"), &t("(lam [$5] k:1)")));
        assert!(cc.redundant(&t("(lam [$5] (p2 $5 $0))"), 0));
    }

    #[test]
    fn orbit_redundancy() {
        // D1 history: p2 symmetric, then p2(x,y) = p1(y): x redundant, hence (by symmetry) y too
        let mut cc = Cc::new(7);
        cc.assert_eq(&t("(p2 $0 $1)"), &t("(p2 $1 $0)"));
        cc.assert_eq(&t("(p2 $0 $1)"), &t("(p1 $1)"));
        cc.close();
        assert!(cc.redundant(&t("(p2 $0 $1)"), 0));
        assert!(cc.redundant(&t("(p2 $0 $1)"), 1));
        assert!(cc.redundant(&t("(p1 $0)"), 0));
    }

    #[test]
    fn pool_stability() {
        for n in [4usize, 5, 6, 7, 8] {
            let mut cc = Cc::new(n);
            cc.track(&t("(b (p2 $0 $1) (p2 $1 $0))"));
            cc.track(&t("(b (p2 $0 $1) (p2 $0 $1))"));
            cc.track(&t("(b (p2 $0 $2) (p2 $0 $1))"));
            cc.assert_eq(&t("(p2 $0 $1)"), &t("(p2 $1 $0)"));
            cc.close();
            assert!(cc.equal(&t("(b (p2 $0 $1) (p2 $1 $0))"), &t("(b (p2 $0 $1) (p2 $0 $1))")));
            assert!(!cc.equal(&t("(b (p2 $0 $1) (p2 $1 $0))"), &t("(b (p2 $0 $2) (p2 $0 $1))")));
        }
    }

    #[test]
    fn rank_matches_enumeration() {
        for (n, k) in [(5usize, 0usize), (5, 1), (5, 3), (7, 4)] {
            let mut v = Vec::new();
            enumerate_tuples(n, k, &mut v);
            assert_eq!(v.len(), falling(n, k));
            for (i, t) in v.iter().enumerate() {
                assert_eq!(rank(n, t), i);
            }
        }
    }
}

#[cfg(test)]
mod adhoc {
    use super::*;
    fn t(s: &str) -> Tm {
        parse_tm(s).unwrap()
    }
    #[test]
    fn c09_case() {
        for n in [7usize, 10, 12] {
            let mut cc = Cc::new(n);
            cc.assert_eq(&t("(p3 $1 $0 $2)"), &t("(g $2 (p3 $2 $1 $0))"));
            cc.assert_eq(&t("(u (p3 $0 $2 $1))"), &t("(p2 $2 $1)"));
            cc.close();
            println!("n={n} before eq3: nonred u(p3 0 2 1) = {:?}, p3 = {:?}", cc.nonredundant(&t("(u (p3 $0 $2 $1))")), cc.nonredundant(&t("(p3 $0 $1 $2)")));
            cc.assert_eq(&t("(p3 $0 $1 $2)"), &t("(p3 $0 $2 $1)"));
            cc.close();
            println!("n={n} after eq3: nonred u(p3 0 2 1) = {:?}, p3 = {:?} p2 = {:?}", cc.nonredundant(&t("(u (p3 $0 $2 $1))")), cc.nonredundant(&t("(p3 $0 $1 $2)")), cc.nonredundant(&t("(p2 $0 $1)")));
        }
    }
}
