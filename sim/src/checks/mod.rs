use crate::run::*;

pub mod canon;
pub mod cross;
pub mod explain;
pub mod extract;
pub mod group;
pub mod history;
pub mod matching;
pub mod repro;
pub mod rw;
pub mod sesscc;
pub mod slots;

#[derive(Clone, Copy, PartialEq, Eq, Debug)]
pub enum Tier {
    Quick,
    Thorough,
}

pub trait Check: Sync {
    fn id(&self) -> &'static str;
    /// generate run number `i` (seed already mixed)
    fn gen(&self, seed: u64, tier: Tier) -> Run;
    /// execute an explicit run (must be called inside a fresh thread) and evaluate the clauses
    fn exec(&self, run: &Run) -> Outcome;
    /// how cases are generated and what makes one non-trivial
    fn rule(&self) -> &'static str;
    /// which fault kinds this check injects (names of counters reported in evidence)
    fn fault_kinds(&self) -> &'static [&'static str];
    /// relative cost: default number of runs per tier
    fn budget(&self, tier: Tier) -> u64;
    /// number of leading runs that enumerate a finite input space completely
    fn enumerated(&self, _tier: Tier) -> u64 {
        0
    }
    fn gen_enum(&self, _i: u64, _seed: u64, _tier: Tier) -> Run {
        unreachable!()
    }
}

pub fn registry() -> Vec<Box<dyn Check>> {
    vec![
        Box::new(sesscc::SessCc { id: "C01" }),
        Box::new(sesscc::SessCc { id: "C02" }),
        Box::new(sesscc::SessCc { id: "C08" }),
        Box::new(group::GroupCheck { id: "C10" }),
        Box::new(group::GroupCheck { id: "C01G" }),
        Box::new(group::GroupCheck { id: "C02G" }),
        Box::new(canon::CanonCheck),
        Box::new(extract::ExtractCheck),
        Box::new(matching::MatchCheck),
        Box::new(matching::FireCheck { id: "C04" }),
        Box::new(matching::FireCheck { id: "C07R" }),
        Box::new(rw::RwCheck { id: "C03" }),
        Box::new(rw::RwCheck { id: "C14" }),
        Box::new(rw::RwCheck { id: "C08R" }),
        Box::new(rw::RwCheck { id: "C11R" }),
        Box::new(rw::RwCheck { id: "C06R" }),
        Box::new(rw::RwCheck { id: "C13R" }),
        Box::new(rw::RwCheck { id: "C07S" }),
        Box::new(rw::RwCheck { id: "C05R" }),
        Box::new(rw::RwCheck { id: "C09R" }),
        Box::new(rw::RwCheck { id: "C20A" }),
        Box::new(rw::StopCheck),
        Box::new(explain::ExplainCheck),
        Box::new(repro::ReproCheck),
        Box::new(cross::CrossCheck { id: "C11" }),
        Box::new(cross::CrossCheck { id: "C12" }),
        Box::new(history::HistoryCheck),
        Box::new(slots::SlotCheck),
    ]
}

pub fn find(id: &str) -> Option<Box<dyn Check>> {
    registry().into_iter().find(|c| c.id() == id)
}
