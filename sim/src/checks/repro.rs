//! C20: runs are reproducible. Engine `thr`: replica threads replay one history under the baton
//! scheduler next to noise threads (unrelated e-graph work, symbol interning, allocation); the
//! transcripts must be byte-identical among replicas, identical to a solo run, and identical to
//! a run in another process (other addresses, other interning order).

use super::sesscc::gen_sess_run;
use super::{Check, Tier};
use crate::exec::{catch, seam};
use crate::langs::*;
use crate::rng::Rng;
use crate::run::*;
use crate::sched::*;
use crate::sess::*;
use crate::tm::*;
use slotted_egraphs::*;

pub struct ReproCheck;

/// one step of the transcript: executes the op and renders every result
pub fn transcript_step(s: &mut Sess<LS, ()>, op: &Op, run: &Run) -> String {
    let r = catch(|| match op.name.as_str() {
        "add" => {
            let h = s.add_term(&op.t[0], run.get("nodewise") != 0);
            format!("add -> {h:?}")
        }
        "union" => {
            let old = op.int(0) != 0 && run.get("old_handles") != 0;
            let r = s.union_terms(&op.t[0], &op.t[1], old, run.get("nodewise") != 0);
            let p = s.eg.progress();
            format!("union -> {r} ({} {} {} {})", p.number_of_classes, p.number_of_live_classes, p.sum_of_slots, p.sum_of_symmetries)
        }
        "probe" => {
            let mut out = String::from("state");
            for id in s.eg.ids() {
                let mut sl: Vec<Slot> = s.eg.slots(id).iter().copied().collect();
                sl.sort();
                out.push_str(&format!(" {id:?}{sl:?}"));
                // e-nodes in the order the e-graph lists them (iteration order is part of the transcript)
                for n in s.eg.enodes(id) {
                    out.push_str(&format!(" {n:?}"));
                }
            }
            out
        }
        "rewrite" => {
            // a small fixed rule set over LS, built by the crate's own string-based constructor
            let all = [
                ("comm-b", "(b ?x ?y)", "(b ?y ?x)"),
                ("uu", "(u (u ?x))", "?x"),
                ("g-to-u", "(g $0 ?x)", "(u ?x)"),
                ("lam-b", "(lam $0 (b ?x ?y))", "(b (lam $0 ?x) (lam $0 ?y))"),
            ];
            let mut rules: Vec<Rewrite<LS, ()>> = Vec::new();
            for (k, (n, a, b)) in all.iter().enumerate() {
                if op.int(0) & (1 << k) != 0 {
                    rules.push(Rewrite::new(n, a, b));
                }
            }
            let changed = apply_rewrites(&mut s.eg, &rules);
            let p = s.eg.progress();
            format!("rewrite -> {changed} ({} {} {} {}) nodes {}", p.number_of_classes, p.number_of_live_classes, p.sum_of_slots, p.sum_of_symmetries, s.eg.total_number_of_nodes())
        }
        "dump" => {
            let text = crate::exec::capture_stdout(|| s.eg.dump());
            format!("dump {text}")
        }
        "match" => {
            let t = &op.t[0];
            // pattern: the term with its kids replaced by variables
            let pat = Pat::Node {
                op: t.op,
                pay: t.pay,
                slots: t.slots.clone(),
                kids: t.kids.iter().enumerate().map(|(i, k)| (k.binders.clone(), Pat::Var(i as u32))).collect(),
            };
            let cp: Pattern<LS> = pat.to_pattern::<LS>(&mut s.nm);
            let ms = ematch_all(&s.eg, &cp);
            // a Subst is a hash map: render it sorted by key, but keep the order of the match list
            let mut out = format!("match {} ->", ms.len());
            for m in ms {
                let mut kv: Vec<(String, AppliedId)> = m.into_iter().collect();
                kv.sort();
                out.push_str(&format!(" {kv:?}"));
            }
            out
        }
        "multimatch" => {
            // multi-patterns with a variable that occurs twice (the order of the match list is
            // part of the transcript)
            let texts = ["?r == (u ?a), ?s == (u ?a)", "?r == (b ?a ?c), ?s == (u ?a)", "?r == (b ?a ?a)", "?r == (b ?a ?c), ?s == (b ?c ?a)"];
            let text = texts[op.int(0).rem_euclid(texts.len() as i64) as usize];
            let mp = MultiPattern::<LS>::parse(text).unwrap();
            let ms = multi_ematch(&mp, &s.eg);
            let mut out = format!("multimatch {} ->", ms.len());
            for m in ms {
                let mut kv: Vec<(String, AppliedId)> = m.into_iter().collect();
                kv.sort();
                out.push_str(&format!(" {kv:?}"));
            }
            out
        }
        "parse" => {
            // the printed form of (up to three) tracked terms, glued into one big term, read back by the
            // crate's parser: the slots it returns are part of the transcript (a named slot is an index
            // into the thread's own name table)
            let n = s.tracked.len();
            if n == 0 {
                return "parse -".to_string();
            }
            let pick = |k: usize| s.tracked[(op.int(0) as usize + k * 7) % n].tm.clone();
            let t = Tm::node("b", vec![], vec![(vec![], pick(0)), (vec![], Tm::node("b", vec![], vec![(vec![], pick(1)), (vec![], pick(2))]))]);
            let text = to_re::<LS>(&t, &mut s.nm).to_string();
            // half of the time every slot gets a name that this thread has never spelled before (suffix q):
            // the parser is then the first to intern it here
            let text = if op.int(0) % 2 == 0 {
                let mut out = String::new();
                let mut in_slot = false;
                for c in text.chars() {
                    if in_slot && (c == ' ' || c == ')' || c == '(') {
                        out.push('q');
                        in_slot = false;
                    }
                    if c == '$' {
                        in_slot = true;
                    }
                    out.push(c);
                }
                if in_slot {
                    out.push('q');
                }
                out
            } else {
                text
            };
            match RecExpr::<LS>::parse(&text) {
                Ok(re) => format!("parse {text} -> {re:?}"),
                Err(e) => format!("parse {text} -> error {e:?}"),
            }
        }
        "extract" => {
            let mut out = String::from("extract");
            let ex = Extractor::<LS, AstSize>::new(&s.eg, AstSize);
            for i in 0..s.tracked.len().min(6) {
                let h = s.tracked[i].h.clone();
                let re = ex.extract(&h, &s.eg);
                out.push_str(&format!(" {re:?}"));
            }
            out
        }
        #[cfg(feature = "explanations")]
        "explain" => {
            let mut out = String::from("explain");
            if let Some((a, b)) = s.eqs.last().cloned() {
                let ra = to_re::<LS>(&a, &mut s.nm);
                let rb = to_re::<LS>(&b, &mut s.nm);
                let p = s.eg.explain_equivalence(ra, rb);
                out.push_str(&p.to_string(&s.eg));
            }
            out
        }
        o => format!("skip {o}"),
    });
    match r {
        Ok(s) => s,
        Err(p) => format!("PANIC {} at {}", p.norm_msg(), p.file()),
    }
}

/// the whole history alone in the current thread
pub fn solo_transcript(run: &Run) -> Vec<String> {
    seam::apply(&run.knobs());
    let mut s: Sess<LS, ()> = Sess::new(EGraph::new(()), run.get("naming") as u32);
    let mut out = Vec::new();
    for op in run.ops.iter().filter(|o| o.name != "noise") {
        out.push(transcript_step(&mut s, op, run));
    }
    out
}

/// what a noise thread does in one step
fn noise_step(st: &mut (Sess<LS, ()>, Rng, Vec<Vec<u8>>), k: usize) -> String {
    let (s, rng, junk) = st;
    match rng.below(4) {
        0 => {
            // intern symbols, overlapping with and disjoint from the replicas' symbols
            for _ in 0..3 {
                let _ = Symbol::from(sym_name(rng.below(12) as u32));
                let _ = Symbol::from(format!("noise{}", rng.below(50)));
            }
        }
        1 => {
            junk.push(vec![0u8; 64 + rng.below(4000)]);
            if junk.len() > 8 {
                junk.remove(0);
            }
        }
        _ => {
            let t = Tm::node("b", vec![], vec![(vec![], Tm::leaf("p2", vec![rng.below(3) as S, 3 + rng.below(2) as S])), (vec![], Tm::pay("sym", rng.below(12) as u32))]);
            let _ = catch(|| {
                s.add_term(&t, false);
                if k % 3 == 0 {
                    let u = Tm::leaf("p2", vec![4, rng.below(3) as S]);
                    s.union_terms(&t, &u, true, false);
                }
            });
        }
    }
    String::new()
}

enum WState {
    Replica(Sess<LS, ()>),
    Noise((Sess<LS, ()>, Rng, Vec<Vec<u8>>)),
}

fn fingerprint(t: &[String]) -> u64 {
    let mut h = 0u64;
    for l in t {
        h = crate::rng::mix(h ^ crate::rng::hash_str(l));
    }
    h
}

fn first_diff(a: &[String], b: &[String]) -> String {
    for (i, (x, y)) in a.iter().zip(b.iter()).enumerate() {
        if x != y {
            let cut = |s: &String| s.chars().take(300).collect::<String>();
            return format!("step {i}: {:?} vs {:?}", cut(x), cut(y));
        }
    }
    format!("lengths {} vs {}", a.len(), b.len())
}

impl Check for ReproCheck {
    fn id(&self) -> &'static str {
        "C20"
    }
    fn gen(&self, seed: u64, tier: Tier) -> Run {
        let mut run = gen_sess_run("C20", seed, tier, true);
        run.set("companion", 0); // replicas and noise threads already share the process
        let mut w = Rng::stream(seed, "transcript");
        // observation steps between the history's operations
        let mut ops: Vec<Op> = Vec::new();
        let terms: Vec<Tm> = all_terms(&run.ops);
        let with_symbols = w.chance(1, 3);
        run.set("symbols", with_symbols as i64);
        for op in run.ops.drain(..) {
            let is_union = op.name == "union";
            ops.push(op);
            if w.chance(1, 3) {
                ops.push(Op::new("probe"));
            }
            {
                // (own stream) printed terms read back by the parser
                let mut pr = Rng::stream(seed ^ ops.len() as u64, "parse-step");
                if pr.chance(1, 6) {
                    ops.push(Op::new("parse").i(pr.below(1000) as i64));
                }
            }
            if is_union && w.chance(1, 4) {
                ops.push(Op::new("rewrite").i(1 + w.below(15) as i64));
            }
            if is_union && w.chance(1, 4) {
                ops.push(Op::new("multimatch").i(w.below(4) as i64));
            }
            if is_union && w.chance(1, 3) && !terms.is_empty() {
                ops.push(Op::new("match").t(w.pick(&terms).clone()));
            }
            if with_symbols && w.chance(1, 2) {
                let a = Tm::pay("sym", w.below(12) as u32);
                let b = Tm::node("u", vec![], vec![(vec![], Tm::pay("sym", w.below(12) as u32))]);
                ops.push(Op::new("add").t(Tm::node("b", vec![], vec![(vec![], a), (vec![], b)])));
            }
        }
        ops.push(Op::new("probe"));
        if w.chance(1, 2) {
            ops.push(Op::new("dump"));
        }
        if w.chance(1, 2) {
            ops.push(Op::new("extract"));
        }
        if cfg!(feature = "explanations") && w.chance(1, 2) {
            ops.push(Op::new("explain"));
        }
        if with_symbols {
            // constants become Symbol leaves, so that symbols take part in unions and rebuilds
            fn k_to_sym(t: &Tm) -> Tm {
                let mut c = t.clone();
                if c.name() == "k" {
                    c.op = op("sym");
                    c.pay %= 12;
                }
                for k in c.kids.iter_mut() {
                    k.t = k_to_sym(&k.t);
                }
                c
            }
            for o in ops.iter_mut() {
                for t in o.t.iter_mut() {
                    *t = k_to_sym(t);
                }
            }
        }
        run.ops = ops;
        run.set("replicas", w.range(2, 3) as i64);
        run.set("noise_threads", w.range(0, 3) as i64);
        run.set("noise_steps", w.range(3, 30) as i64);
        run.set("schedule_seed", (w.next() >> 1) as i64);
        run.set("noise_seed", (w.next() >> 1) as i64);
        // cross-process comparison for a share of the runs (a process spawn costs milliseconds)
        run.set("xproc", w.chance(1, 6) as i64);
        run.set("intern_order", w.below(1000) as i64);
        run
    }
    fn rule(&self) -> &'static str {
        "a seeded sess history over LS (a third of the runs with Symbol-payload leaves) with interleaved observation steps (e-node listing in iteration order, match lists, extraction, explanations in the explanations build); 2-3 replica threads replay it step by step under the baton scheduler next to 0-3 noise threads (own e-graphs, symbol interning in other orders, allocation); replica transcripts must be identical to each other and to a solo replay; a sixth of the runs is also replayed in a child process with another symbol interning order and heap layout; non-trivial = at least one union changed the e-graph, and at least one context switch separated two replica steps; distinct = distinct canonical key"
    }
    fn fault_kinds(&self) -> &'static [&'static str] {
        &["K7_context_switches", "K7_noise_steps", "K7_thread_birth", "K7_child_process_replays", "K1_hash_order"]
    }
    fn budget(&self, tier: Tier) -> u64 {
        match tier {
            Tier::Quick => 10_000,
            Tier::Thorough => 60_000,
        }
    }
    fn exec(&self, run: &Run) -> Outcome {
        let mut out = Outcome::default();
        let replicas = run.get("replicas").clamp(1, 4) as usize;
        let noise = run.get("noise_threads").clamp(0, 4) as usize;
        let hist: Vec<Op> = run.ops.iter().filter(|o| o.name != "noise").cloned().collect();
        let noise_steps = run.get("noise_steps").clamp(0, 100) as usize;
        let mut nsteps = vec![hist.len(); replicas];
        nsteps.extend(std::iter::repeat(noise_steps).take(noise));
        let run_c = run.clone();
        let run_c2 = run.clone();
        let hist_c = hist.clone();
        let noise_seed = run.get("noise_seed") as u64;
        let mut workers = spawn_workers(
            &nsteps,
            move |t| {
                seam::apply(&run_c.knobs());
                if t < replicas {
                    WState::Replica(Sess::new(EGraph::new(()), run_c.get("naming") as u32))
                } else {
                    WState::Noise((Sess::new(EGraph::new(()), 0), Rng::stream(noise_seed, &format!("noise{t}")), Vec::new()))
                }
            },
            move |st: &mut WState, _t, k| match st {
                WState::Replica(s) => transcript_step(s, &hist_c[k], &run_c2),
                WState::Noise(n) => noise_step(n, k),
            },
        );
        let mut sch = Rng::stream(run.get("schedule_seed") as u64, "schedule");
        let total: usize = nsteps.iter().sum();
        let schedule: Vec<usize> = (0..total).map(|_| sch.below(nsteps.len())).collect();
        let (events, switches) = run_schedule(&mut workers, &schedule);
        out.ops_executed = events.len() as u64;
        out.count("K7_context_switches", switches as u64);
        out.count("K7_thread_birth", nsteps.len() as u64);
        out.count("K7_noise_steps", events.iter().filter(|(t, _, _)| *t >= replicas).count() as u64);
        let mut transcripts: Vec<Vec<String>> = vec![Vec::new(); replicas];
        for (t, _k, r) in events {
            if t < replicas {
                transcripts[t].push(r);
            }
        }
        let viol = |clause: &str, detail: String| Violation {
            property: "C20".into(),
            clause: clause.into(),
            kind: "mismatch".into(),
            sig: clause.into(),
            triggers: if run.get("symbols") != 0 { vec!["symbol_payload".into()] } else { vec![] },
            detail,
            at_op: 0,
        };
        for r in 1..replicas {
            if transcripts[r] != transcripts[0] {
                out.violations.push(viol("replicas_agree", format!("replica {r} differs from replica 0: {}", first_diff(&transcripts[0], &transcripts[r]))));
                return out;
            }
        }
        // solo replay in a fresh thread of this process
        let run_s = run.clone();
        let solo = crate::exec::in_fresh_thread(move || solo_transcript(&run_s));
        if solo != transcripts[0] {
            out.violations.push(viol("same_as_solo", format!("the interleaved replicas differ from a solo replay: {}", first_diff(&solo, &transcripts[0]))));
            return out;
        }
        out.bump("solo_comparisons");
        if transcripts[0].iter().any(|l| l.starts_with("PANIC")) {
            out.discarded = Some("panic".into());
        }
        // another process: other addresses, other symbol interning order
        if run.get("xproc") != 0 && out.discarded.is_none() {
            let dir = std::env::temp_dir();
            let path = dir.join(format!("c20-{}-{:016x}.json", std::process::id(), run.hash()));
            std::fs::write(&path, run.to_json().to_string()).expect("write child run");
            let exe = std::env::current_exe().expect("exe");
            let o = std::process::Command::new(exe).arg("c20child").arg("--file").arg(&path).output();
            let _ = std::fs::remove_file(&path);
            match o {
                Ok(o) if o.status.success() => {
                    let text = String::from_utf8_lossy(&o.stdout);
                    let child_fp = text.lines().find_map(|l| l.strip_prefix("FINGERPRINT ").map(|x| x.trim().to_string()));
                    out.bump("K7_child_process_replays");
                    if child_fp != Some(format!("{:016x}", fingerprint(&solo))) {
                        let child_lines: Vec<String> = text.lines().filter_map(|l| l.strip_prefix("T ").map(|x| x.to_string())).collect();
                        let mine: Vec<String> = solo.iter().map(|l| l.replace('\n', "\\n")).collect();
                        out.violations.push(viol("same_in_other_process", format!("a replay in another process (interning order {}) differs: {}", run.get("intern_order"), first_diff(&mine, &child_lines))));
                        return out;
                    }
                }
                Ok(o) => panic!("harness: c20child failed: {}", String::from_utf8_lossy(&o.stderr)),
                Err(e) => panic!("harness: cannot spawn c20child: {e}"),
            }
        }
        if run.get("hash_seed") != 0 {
            out.bump("K1_hash_order");
        }
        out.log_hash = fingerprint(&solo);
        out.states.push(out.log_hash);
        let changed = solo.iter().any(|l| l.starts_with("union -> true"));
        out.nontrivial = out.discarded.is_none() && changed && switches > 0;
        out
    }
}

/// child-process entry: replays the run alone after interning symbols in another order
pub fn child_main(path: &str) -> i32 {
    let s = std::fs::read_to_string(path).expect("read run");
    let v: serde_json::Value = serde_json::from_str(&s).expect("json");
    let run = Run::from_json(&v).expect("run");
    // another interning order and another heap layout than the parent's
    let mut rng = Rng::stream(run.get("intern_order") as u64, "intern");
    let mut order: Vec<u32> = (0..12).collect();
    rng.shuffle(&mut order);
    let mut junk = Vec::new();
    for i in order {
        let _ = Symbol::from(sym_name(i));
        let _ = Symbol::from(format!("pre{}", rng.below(1000)));
        junk.push(vec![1u8; 100 + rng.below(5000)]);
    }
    let t = crate::exec::in_fresh_thread(move || solo_transcript(&run));
    for l in &t {
        println!("T {}", l.replace('\n', "\\n"));
    }
    println!("FINGERPRINT {:016x}", fingerprint(&t));
    drop(junk);
    0
}
