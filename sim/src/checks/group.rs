//! C10: class symmetries are exactly the generated permutation group.
//! (a) e-graph path: union(a, pi.a) per generator, then eq(a, pi.a) for every pi in S_k.
//! (b) direct path through the cfg-guarded wrapper VGroup: contains / all_perms / count / orbit /
//!     add_set against brute-force closure M_group.

use super::{Check, Tier};
use crate::exec::seam;
use crate::langs::*;
use crate::rng::Rng;
use crate::run::*;
use crate::sess::*;
use crate::tm::*;
use slotted_egraphs::*;
use std::collections::{BTreeMap, BTreeSet};

/// `C10`: the whole check. `C01G` / `C02G`: the e-graph paths only (random generator sets on 4-6 slots),
/// reporting the soundness direction (an equality outside the generated group) as C01 and the completeness
/// direction (a group element that does not compare equal) as C02: for a history that only unites a leaf with
/// permuted copies of itself (and with one further term over the same slots) the generated group IS the
/// congruence closure, so brute-force closure is an exact oracle for classes with 5 and 6 parameters, which
/// M_cc cannot afford.
pub struct GroupCheck {
    pub id: &'static str,
}

type P = Vec<u8>; // image list: p[i] = image of point i

fn compose(a: &P, b: &P) -> P {
    // first a, then b
    a.iter().map(|x| b[*x as usize]).collect()
}

/// M_group: brute-force closure of the generators under composition
pub fn closure(k: usize, gens: &[P]) -> BTreeSet<P> {
    let id: P = (0..k as u8).collect();
    let mut set: BTreeSet<P> = BTreeSet::new();
    set.insert(id);
    loop {
        let mut new: Vec<P> = Vec::new();
        for x in &set {
            for g in gens {
                let y = compose(x, g);
                if !set.contains(&y) {
                    new.push(y);
                }
            }
        }
        if new.is_empty() {
            break;
        }
        set.extend(new);
    }
    set
}

pub fn all_perms(k: usize) -> Vec<P> {
    fn rec(k: usize, cur: &mut P, out: &mut Vec<P>) {
        if cur.len() == k {
            out.push(cur.clone());
            return;
        }
        for v in 0..k as u8 {
            if !cur.contains(&v) {
                cur.push(v);
                rec(k, cur, out);
                cur.pop();
            }
        }
    }
    let mut out = Vec::new();
    rec(k, &mut Vec::new(), &mut out);
    out
}

fn nth_perm(k: usize, mut n: usize) -> P {
    // lexicographic unranking
    let mut avail: Vec<u8> = (0..k as u8).collect();
    let mut fact = vec![1usize; k + 1];
    for i in 1..=k {
        fact[i] = fact[i - 1] * i;
    }
    let mut out = Vec::new();
    for i in (0..k).rev() {
        let idx = n / fact[i];
        n %= fact[i];
        out.push(avail.remove(idx));
    }
    out
}

fn random_perm(rng: &mut Rng, k: usize) -> P {
    let mut v: P = (0..k as u8).collect();
    match rng.below(5) {
        0 => {
            // transposition
            let i = rng.below(k);
            let j = (i + 1 + rng.below(k - 1)) % k;
            v.swap(i, j);
        }
        1 if k >= 3 => {
            // 3-cycle
            let mut idx: Vec<usize> = (0..k).collect();
            rng.shuffle(&mut idx);
            let (a, b, c) = (idx[0], idx[1], idx[2]);
            v[a] = b as u8;
            v[b] = c as u8;
            v[c] = a as u8;
        }
        2 => {
            // full cycle
            for i in 0..k {
                v[i] = ((i + 1) % k) as u8;
            }
        }
        _ => rng.shuffle(&mut v),
    }
    v
}

fn perm_op(p: &P) -> Op {
    let mut o = Op::new("gen");
    for x in p {
        o = o.i(*x as i64);
    }
    o
}

fn knobs(run: &mut Run, seed: u64) {
    let mut f = Rng::stream(seed, "faults");
    if f.chance(2, 3) {
        run.set("hash_seed", (f.next() >> 1) as i64 | 1);
    }
    if f.chance(1, 3) {
        run.set("stride_max", *f.pick(&[1, 3, 17]));
        run.set("stride_seed", (f.next() >> 1) as i64);
    }
    if f.chance(1, 2) {
        run.set("naming", f.below(NAMING_KINDS as usize) as i64);
    }
    if f.chance(1, 4) {
        run.set("buggify_mask", 1 + f.below(7) as i64);
        run.set("buggify_seed", (f.next() >> 1) as i64);
    }
    // K5: order in which the generators are asserted / split point for add_set
    run.set("split", f.below(4) as i64);
    run.set("probes", f.chance(1, 3) as i64);
    // (a') a slot of the leaf becomes redundant at some point of the history (k <= 4): the
    // permuted copies are then compared with M_cc ("restricted to non-redundant slots")
    run.set("redundant_at", if f.chance(1, 3) { 1 + f.below(4) as i64 } else { 0 });
    run.set("redundant_two", Rng::stream(seed, "redundant-two").chance(1, 2) as i64);
    // (a'') (own stream) two classes with their own symmetries, merged afterwards
    let mut mr = Rng::stream(seed, "merge-two");
    if mr.chance(1, 2) {
        run.set("merge_two", 1);
        run.set("merge_mask", mr.below(16) as i64);
        run.set("merge_flip", mr.below(2) as i64);
    }
}

fn enum_sizes(tier: Tier) -> Vec<(usize, usize)> {
    // (k, number of generators)
    match tier {
        Tier::Quick => vec![(1, 1), (2, 1), (2, 2), (3, 1), (3, 2), (3, 3), (4, 1), (4, 2)],
        Tier::Thorough => vec![(1, 1), (2, 1), (2, 2), (2, 3), (3, 1), (3, 2), (3, 3), (4, 1), (4, 2), (4, 3)],
    }
}

fn fact(k: usize) -> u64 {
    (1..=k as u64).product()
}

impl Check for GroupCheck {
    fn id(&self) -> &'static str {
        self.id
    }

    fn enumerated(&self, tier: Tier) -> u64 {
        if self.id != "C10" {
            return 0;
        }
        enum_sizes(tier).iter().map(|(k, g)| fact(*k).pow(*g as u32)).sum()
    }

    fn gen_enum(&self, mut i: u64, seed: u64, tier: Tier) -> Run {
        let mut run = Run::new("C10", seed);
        for (k, g) in enum_sizes(tier) {
            let n = fact(k).pow(g as u32);
            if i < n {
                run.set("k", k as i64);
                for _ in 0..g {
                    let p = nth_perm(k, (i % fact(k)) as usize);
                    i /= fact(k);
                    run.ops.push(perm_op(&p));
                }
                knobs(&mut run, seed);
                run.set("enumerated", 1);
                return run;
            }
            i -= n;
        }
        unreachable!()
    }

    fn gen(&self, seed: u64, _tier: Tier) -> Run {
        let mut run = Run::new(self.id, seed);
        let mut w = Rng::stream(seed, "workload");
        let mut k = *w.pick(&[4, 5, 5, 6, 6]);
        {
            // (own stream) seven or eight points, direct path only: groups with thousands of elements
            let mut br = Rng::stream(seed, "big-k");
            if self.id == "C10" && br.chance(1, 10) {
                k = if br.chance(1, 5) { 8 } else { 7 };
            }
        }
        run.set("k", k as i64);
        let g = w.range(1, 3);
        for _ in 0..g {
            run.ops.push(perm_op(&random_perm(&mut w, k)));
        }
        knobs(&mut run, seed);
        if run.get("merge_two") != 0 {
            // (own stream) up to two further generators, biased towards transpositions and 3-cycles
            let mut mr = Rng::stream(seed, "merge-two-gens");
            for _ in 0..mr.below(3) {
                let mut p: P = (0..k as u8).collect();
                let a = mr.below(k);
                let b = (a + 1 + mr.below(k - 1)) % k;
                p.swap(a, b);
                if mr.chance(1, 2) {
                    let c = mr.below(k);
                    if c != a && c != b {
                        p.swap(b, c);
                    }
                }
                run.ops.push(perm_op(&p));
            }
        }
        run
    }

    fn rule(&self) -> &'static str {
        "generator sets on k slots: enumerated completely for the (k, #generators) pairs listed in coverage.enumerated_space, random for k = 4..6; each executed through unions on a k-slot leaf and through the group wrapper under sampled hash order / stride / naming / buggify / generator order; compared with brute-force subgroup closure for every permutation of S_k (k<=5) or a sample of 150 (k=6); non-trivial = generated group has more than one element; distinct = distinct (generator list, knobs)"
    }

    fn fault_kinds(&self) -> &'static [&'static str] {
        &["K1_hash_order", "K2_fresh_stride", "K4_buggify", "K5_client_schedule"]
    }

    fn budget(&self, tier: Tier) -> u64 {
        match tier {
            Tier::Quick => self.enumerated(tier) + if self.id == "C10" { 50_000 } else { 30_000 },
            Tier::Thorough => self.enumerated(tier) + 60_000,
        }
    }

    fn exec(&self, run: &Run) -> Outcome {
        let mut out = self.exec_all(run);
        if self.id != "C10" {
            let (clause, prop) = if self.id == "C01G" { ("eq_outside_group", "C01") } else { ("eq_misses_group_element", "C02") };
            let had = !out.violations.is_empty();
            out.violations.retain(|v| v.clause == clause);
            for v in out.violations.iter_mut() {
                v.property = prop.into();
            }
            if had && out.violations.is_empty() && out.discarded.is_none() {
                // a violation of another clause (a panic, the other direction) ended the run early
                out.discarded = Some("other_clause".into());
            }
        }
        out
    }
}

impl GroupCheck {
    fn exec_all(&self, run: &Run) -> Outcome {
        let mut out = Outcome::default();
        seam::apply(&run.knobs());
        let k = run.get("k").clamp(1, 8) as usize;
        // seven and eight points exist on the direct path only (the leaves of LS end at six slots)
        let big_k = k > 6;
        let gens: Vec<P> = run
            .ops
            .iter()
            .filter(|o| o.name == "gen")
            .map(|o| {
                let p: P = (0..k).map(|i| o.int(i).rem_euclid(k as i64) as u8).collect();
                p
            })
            .filter(|p| {
                let mut s = p.clone();
                s.sort();
                s == (0..k as u8).collect::<Vec<u8>>()
            })
            .collect();
        let mut orng = Rng::stream(run.get("hash_seed") as u64 ^ 0x5151, "oracle-sampling");
        let mut queries: Vec<P> = if k <= 5 { all_perms(k) } else { (0..150).map(|_| random_perm(&mut orng, k)).collect() };
        if k >= 6 {
            queries.push((0..k as u8).collect());
            // members of the generated group (random permutations of six and more points rarely are)
            let members: Vec<P> = closure(k, &gens).into_iter().collect();
            for _ in 0..60 {
                queries.push(orng.pick(&members).clone());
            }
        }
        let viol = |clause: &str, detail: String, at: usize| Violation {
            property: "C10".into(),
            clause: clause.into(),
            kind: "mismatch".into(),
            sig: clause.into(),
            triggers: vec![],
            detail,
            at_op: at,
        };

        // (a) e-graph path
        let leaf = Tm::leaf(&format!("p{}", k.min(6)), (0..k.min(6) as S).collect());
        let mut s: Sess<LS, ()> = Sess::new(EGraph::new(()), run.get("naming") as u32);
        let r = catch_op(|| s.add_term(&leaf, false));
        let h = match r {
            Ok(h) => h,
            Err(p) => {
                out.violations.push(panic_violation("C10", "egraph_path_no_panic", &p, 0));
                return out;
            }
        };
        for (gi, g) in gens.iter().enumerate() {
            if big_k {
                break;
            }
            let permuted = Tm::leaf(&format!("p{k}"), g.iter().map(|x| *x as S).collect());
            let old = gi % 2 == 0;
            let r = catch_op(|| s.union_terms(&leaf, &permuted, old, false));
            out.ops_executed += 1;
            if let Err(p) = r {
                out.violations.push(panic_violation("C10", "egraph_path_no_panic", &p, gi));
                return out;
            }
            if run.get("probes") != 0 {
                let _ = catch_op(|| run_probes(&mut s, gi as i64, gi as u64));
            }
            let m = closure(k, &gens[..=gi]);
            for q in &queries {
                let rho: BTreeMap<S, S> = (0..k).map(|i| (i as S, q[i] as S)).collect();
                let hq = s.handle_inst(0, &rho);
                let got = match catch_op(|| s.eg.eq(&h, &hq)) {
                    Ok(b) => b,
                    Err(p) => {
                        out.violations.push(panic_violation("C10", "egraph_path_no_panic", &p, gi));
                        return out;
                    }
                };
                let want = m.contains(q);
                out.bump(if want { "positive_queries" } else { "negative_queries" });
                if got != want {
                    out.violations.push(viol(
                        if got { "eq_outside_group" } else { "eq_misses_group_element" },
                        format!("after unions {:?} on p{k}: eq(a, {q:?}.a) = {got}, brute-force group membership = {want} (|G| = {})", &gens[..=gi], m.len()),
                        gi,
                    ));
                    return out;
                }
            }
            let p = s.eg.progress();
            out.states.push(crate::rng::mix(m.len() as u64 ^ (p.sum_of_symmetries as u64) << 16));
        }

        // (a'') two classes over the same k slots, each with its own asserted symmetries, merged afterwards:
        // the leaf p_k(0..k) and the term (g $0 (p_{k-1} $1 ..)). Generator i is asserted on the second
        // class if bit i of merge_mask is set. After union(leaf, g-term) (either orientation) both terms
        // must have exactly the symmetries generated by all the asserted ones.
        if run.get("merge_two") != 0 && k >= 2 && !big_k && !gens.is_empty() {
            let mask = run.get("merge_mask") as usize;
            let t2 = Tm::node("g", vec![0], vec![(vec![], Tm::leaf(&format!("p{}", k - 1), (1..k as S).collect()))]);
            let mut s3: Sess<LS, ()> = Sess::new(EGraph::new(()), run.get("naming") as u32);
            let r = catch_op(|| (s3.add_term(&leaf, false), s3.add_term(&t2, false)));
            let Ok((h1, h2)) = r else {
                out.discarded = Some("panic".into());
                return out;
            };
            for (gi, g) in gens.iter().enumerate() {
                let m: BTreeMap<S, S> = (0..k).map(|i| (i as S, g[i] as S)).collect();
                let (a, b) = if (mask >> gi) & 1 == 1 { (t2.clone(), t2.rename_keep_binders(&m)) } else { (leaf.clone(), leaf.rename_keep_binders(&m)) };
                if catch_op(|| s3.union_terms(&a, &b, gi % 2 == 0, false)).is_err() {
                    out.discarded = Some("panic".into());
                    return out;
                }
                out.ops_executed += 1;
            }
            let r = if run.get("merge_flip") != 0 { catch_op(|| s3.union_terms(&t2, &leaf, true, false)) } else { catch_op(|| s3.union_terms(&leaf, &t2, true, false)) };
            if r.is_err() {
                out.discarded = Some("panic".into());
                return out;
            }
            let m = closure(k, &gens);
            for q in &queries {
                let rho: BTreeMap<S, S> = (0..k).map(|i| (i as S, q[i] as S)).collect();
                let sm = s3.nm.slotmap(&rho);
                let want = m.contains(q);
                for (what, ha, hb) in [("leaf vs leaf", &h1, &h1), ("g-term vs g-term", &h2, &h2), ("leaf vs g-term", &h1, &h2)] {
                    let hq = hb.apply_slotmap_partial(&sm);
                    let got = match catch_op(|| s3.eg.eq(ha, &hq)) {
                        Ok(b) => b,
                        Err(_) => {
                            out.discarded = Some("panic_in_query".into());
                            return out;
                        }
                    };
                    out.bump("merged_classes_queries");
                    if got != want {
                        out.violations.push(viol(
                            if got { "eq_outside_group" } else { "eq_misses_group_element" },
                            format!("p{k}(0..) and (g $0 (p{}(1..))) with generators {:?} (bit i of mask {mask} set: asserted on the g-term), then united (flip {}): eq({what} permuted by {q:?}) = {got}, brute-force group membership = {want} (|G| = {})", k - 1, gens, run.get("merge_flip"), m.len()),
                            gens.len(),
                        ));
                        return out;
                    }
                }
            }
        }

        // (a') redundancy on the leaf: old handles, every permutation, oracle M_cc
        if run.get("redundant_at") > 0 && k >= 2 && k <= 4 {
            use crate::oracle::cc::Cc;
            let mut s2: Sess<LS, ()> = Sess::new(EGraph::new(()), run.get("naming") as u32);
            let mut cc = Cc::new(3 * k + 1);
            // one slot of the leaf becomes redundant - or (knob) the last TWO at once, in a single union
            let keep = if run.get("redundant_two") != 0 && k >= 3 { k - 2 } else { k - 1 };
            let small = Tm::leaf(&format!("p{keep}"), (0..keep as S).collect());
            let at = (run.get("redundant_at") as usize - 1).min(gens.len());
            let r0 = catch_op(|| s2.add_term(&leaf, false));
            let Ok(h0) = r0 else {
                out.discarded = Some("panic".into());
                return out;
            };
            cc.track(&leaf);
            let mut step = 0;
            for gi in 0..=gens.len() {
                if gi == at {
                    if catch_op(|| s2.union_terms(&leaf, &small, true, false)).is_err() {
                        out.discarded = Some("panic".into());
                        return out;
                    }
                    cc.assert_eq(&leaf, &small);
                    step += 1;
                }
                if gi < gens.len() {
                    let permuted = Tm::leaf(&format!("p{k}"), gens[gi].iter().map(|x| *x as S).collect());
                    if catch_op(|| s2.union_terms(&leaf, &permuted, gi % 2 == 1, false)).is_err() {
                        out.discarded = Some("panic".into());
                        return out;
                    }
                    cc.assert_eq(&leaf, &permuted);
                    step += 1;
                }
                for q in &queries {
                    let qt = Tm::leaf(&format!("p{k}"), q.iter().map(|x| *x as S).collect());
                    cc.track(&qt);
                }
                cc.close();
                for q in &queries {
                    let rho: BTreeMap<S, S> = (0..k).map(|i| (i as S, q[i] as S)).collect();
                    let qt = Tm::leaf(&format!("p{k}"), q.iter().map(|x| *x as S).collect());
                    // the handle obtained before anything happened, and its permuted copy
                    let hq = h0.apply_slotmap_partial(&s2.nm.slotmap(&rho));
                    let got = match catch_op(|| s2.eg.eq(&h0, &hq)) {
                        Ok(b) => b,
                        Err(_) => {
                            out.discarded = Some("panic_in_query".into());
                            return out;
                        }
                    };
                    let want = cc.equal(&leaf, &qt);
                    out.bump("redundancy_path_queries");
                    // the same question with a handle obtained now (it lacks the redundant slot)
                    let hn = match catch_op(|| s2.re_add(&leaf)) {
                        Ok(h) => h,
                        Err(_) => {
                            out.discarded = Some("panic_in_query".into());
                            return out;
                        }
                    };
                    let hnq = hn.apply_slotmap_partial(&s2.nm.slotmap(&rho));
                    let got2 = match catch_op(|| s2.eg.eq(&h0, &hnq)) {
                        Ok(b) => b,
                        Err(_) => {
                            out.discarded = Some("panic_in_query".into());
                            return out;
                        }
                    };
                    if got2 != want {
                        out.violations.push(viol(
                            if got2 { "eq_outside_group" } else { "eq_misses_group_element" },
                            format!("leaf p{k} with generators {:?} and p{k}(0..) = p{}(0..) asserted at step {at}: after {step} unions eq(old handle, {q:?}.new handle) = {got2}, M_cc says {want}", &gens[..gi.min(gens.len())], keep),
                            gi,
                        ));
                        return out;
                    }
                    if got != want {
                        out.violations.push(viol(
                            if got { "eq_outside_group" } else { "eq_misses_group_element" },
                            format!("leaf p{k} with generators {:?} and p{k}(0..) = p{}(0..) asserted at step {at}: after {step} unions eq(old handle, {q:?}.old handle) = {got}, M_cc says {want}", &gens[..gi.min(gens.len())], keep),
                            gi,
                        ));
                        return out;
                    }
                }
            }
        }

        // (b) direct path (guard-on builds only)
        #[cfg(slotted_egraphs_verif)]
        if self.id == "C10" {
            use slotted_egraphs::verif::VGroup;
            let mut nm = Naming::new(run.get("naming") as u32);
            let slots: Vec<Slot> = (0..k as S).map(|i| nm.slot(i)).collect();
            let omega: SmallHashSet<Slot> = slots.iter().copied().collect();
            let to_map = |p: &P| -> SlotMap {
                let mut m = SlotMap::new();
                for i in 0..k {
                    m.insert(slots[i], slots[p[i] as usize]);
                }
                m
            };
            let from_map = |m: &SlotMap| -> P {
                (0..k).map(|i| slots.iter().position(|s| *s == m[slots[i]]).unwrap() as u8).collect()
            };
            let split = (run.get("split").rem_euclid(4) as usize).min(gens.len());
            let r = catch_op(|| -> Result<(), Violation> {
                let mut grp = VGroup::new(&omega, gens[..split].iter().map(to_map).collect());
                let m0 = closure(k, &gens[..split]);
                let grew = grp.add_set(gens[split..].iter().map(to_map).collect());
                let m = closure(k, &gens);
                if grew != (m.len() > m0.len()) {
                    return Err(viol("add_set_growth", format!("add_set({:?}) onto <{:?}> returned {grew}, group sizes {} -> {}", &gens[split..], &gens[..split], m0.len(), m.len()), split));
                }
                if grp.count() != m.len() {
                    return Err(viol("count", format!("count() = {} but |<{:?}>| = {}", grp.count(), gens, m.len()), 0));
                }
                let all: Vec<P> = grp.all_perms().iter().map(from_map).collect();
                let set: BTreeSet<P> = all.iter().cloned().collect();
                if set.len() != all.len() {
                    return Err(viol("all_perms_duplicates", format!("all_perms() of <{gens:?}> has duplicates: {all:?}"), 0));
                }
                if set != m {
                    return Err(viol("all_perms_set", format!("all_perms() of <{gens:?}> = {set:?}, brute force = {m:?}"), 0));
                }
                for q in &queries {
                    let got = grp.contains(&to_map(q));
                    if got != m.contains(q) {
                        return Err(viol("contains", format!("contains({q:?}) = {got} for <{gens:?}>"), 0));
                    }
                }
                for i in 0..k {
                    let orb: BTreeSet<u8> = grp.orbit(slots[i]).iter().map(|s| slots.iter().position(|x| x == s).unwrap() as u8).collect();
                    let want: BTreeSet<u8> = m.iter().map(|p| p[i]).collect();
                    if orb != want {
                        return Err(viol("orbit", format!("orbit({i}) = {orb:?}, brute force {want:?} for <{gens:?}>"), 0));
                    }
                }
                Ok(())
            });
            out.bump("direct_path_runs");
            match r {
                Err(p) => {
                    if p.is_harness() {
                        panic!("harness panic: {} at {}", p.msg, p.loc);
                    }
                    out.violations.push(panic_violation("C10", "direct_path_no_panic", &p, 0));
                    return out;
                }
                Ok(Err(v)) => {
                    out.violations.push(v);
                    return out;
                }
                Ok(Ok(())) => {}
            }
        }

        for (name, c) in seam::take_probes() {
            out.count(&format!("probe:{name}"), c);
        }
        if run.get("hash_seed") != 0 {
            out.bump("K1_hash_order");
        }
        if out.counters.get("probe:fresh_stride_taken").copied().unwrap_or(0) > 0 {
            out.bump("K2_fresh_stride");
        }
        if seam::buggify_fired(1) + seam::buggify_fired(2) > 0 {
            out.bump("K4_buggify");
        }
        if run.get("naming") != 0 || run.get("split") != 0 {
            out.bump("K5_client_schedule");
        }
        out.log_hash = s.log_hash;
        out.nontrivial = closure(k, &gens).len() > 1;
        out
    }
}
