//! C06: extraction returns a cheapest term of the requested class. Oracle M_cost (value
//! iteration over enodes) + membership via lookup_rec_expr.

use super::history::gen_long_history;
use super::sesscc::state_hash;
use super::{Check, Tier};
use crate::exec::seam;
use crate::langs::*;
use crate::rng::Rng;
use crate::run::*;
use crate::sess::*;
use crate::tm::*;
use slotted_egraphs::*;
use std::collections::{BTreeMap, HashMap};

pub struct ExtractCheck;

/// simulator-owned cost functions, all strictly monotone in the children
#[derive(Clone, Copy, Debug)]
pub enum SimCost {
    Size,
    /// 1 + sum_i (i+1) * c_i
    PositionWeighted,
    /// w(op) + sum c_i with w(op) in 1..=5 depending on the operator
    OpWeighted,
}

pub fn op_weight<L: SimLang>(n: &L) -> u64 {
    let (name, pay, _, _) = n.unmk();
    (crate::rng::hash_str(name) % 5) + 1 + (pay as u64 % 3)
}

pub fn sim_cost<L: SimLang>(kind: SimCost, n: &L, child: &[u64]) -> u64 {
    match kind {
        SimCost::Size => child.iter().fold(1u64, |a, b| a.saturating_add(*b)),
        SimCost::PositionWeighted => child
            .iter()
            .enumerate()
            .fold(1u64, |a, (i, b)| a.saturating_add(b.saturating_mul(i as u64 + 1))),
        SimCost::OpWeighted => child.iter().fold(op_weight(n), |a, b| a.saturating_add(*b)),
    }
}

pub struct SimCostFn(pub SimCost);

impl<L: SimLang> CostFunction<L> for SimCostFn {
    type Cost = u64;
    fn cost<C>(&self, enode: &L, costs: C) -> u64
    where
        C: Fn(Id) -> u64,
    {
        let child: Vec<u64> = enode.applied_id_occurrences().iter().map(|a| costs(a.id)).collect();
        sim_cost(self.0, enode, &child)
    }
}

/// M_cost: least fixpoint of cost[c] = min over e-nodes n of c of f(n, cost[children])
pub fn m_cost<L: SimLang, N: Analysis<L>>(eg: &EGraph<L, N>, kind: SimCost) -> HashMap<Id, u64> {
    let ids = eg.ids();
    let mut cost: HashMap<Id, u64> = HashMap::new();
    let nodes: Vec<(Id, Vec<L>)> = ids.iter().map(|i| (*i, eg.enodes(*i).into_iter().collect())).collect();
    loop {
        let mut changed = false;
        for (id, ns) in &nodes {
            for n in ns {
                let mut child = Vec::new();
                let mut ok = true;
                for a in n.applied_id_occurrences() {
                    let cid = eg.find_applied_id(a).id;
                    match cost.get(&cid) {
                        Some(c) => child.push(*c),
                        None => {
                            ok = false;
                            break;
                        }
                    }
                }
                if !ok {
                    continue;
                }
                let c = sim_cost(kind, n, &child);
                let e = cost.get(id).copied();
                if e.map(|e| c < e).unwrap_or(true) {
                    cost.insert(*id, c);
                    changed = true;
                }
            }
        }
        if !changed {
            break;
        }
    }
    cost
}

fn tm_cost<L: SimLang>(kind: SimCost, t: &Tm, nm: &mut Naming) -> u64 {
    let child: Vec<u64> = t.kids.iter().map(|k| tm_cost::<L>(kind, &k.t, nm)).collect();
    let n = L::mk(t, nm);
    sim_cost(kind, &n, &child)
}

fn viol(clause: &str, detail: String, at: usize) -> Violation {
    Violation { property: "C06".into(), clause: clause.into(), kind: "mismatch".into(), sig: clause.into(), triggers: vec![], detail, at_op: at }
}

/// All C06 clauses on the current e-graph of a session. `seen_slots`: every real slot the
/// simulator has handed to or received from the e-graph so far.
fn collect_bound<L: SimLang>(re: &RecExpr<L>, out: &mut Vec<Slot>) {
    for x in re.node.private_slots() {
        if !out.contains(&x) && out.len() < 64 {
            out.push(x);
        }
    }
    for c in &re.children {
        collect_bound(c, out);
    }
}

pub fn check_extraction<L: SimLang, N: Analysis<L>>(s: &mut Sess<L, N>, kind: SimCost, rng: &mut Rng, out: &mut Outcome, at: usize) -> Option<Violation> {
    let _ph = crate::exec::phase("C06");
    let oracle = m_cost(&s.eg, kind);
    let ex = Extractor::<L, SimCostFn>::new(&s.eg, SimCostFn(kind));
    let ids = s.eg.ids();
    // every slot that exists in the e-graph right now (class parameters, e-node slots)
    let mut existing: std::collections::HashSet<Slot> = std::collections::HashSet::new();
    for id in &ids {
        existing.extend(s.eg.slots(*id).iter().copied());
        for n in s.eg.enodes(*id) {
            existing.extend(n.all_slot_occurrences());
        }
    }
    let mut seen_bound: Vec<Slot> = Vec::new();
    // slots invented by earlier results of this extractor: a later result must not invent them again
    let mut shown_fresh: std::collections::HashSet<Slot> = std::collections::HashSet::new();
    for id in ids {
        let cls_slots: Vec<Slot> = s.eg.slots(id).iter().copied().collect();
        // identity invocation and a renamed one
        let mut invs: Vec<AppliedId> = vec![s.eg.mk_identity_applied_id(id)];
        {
            let mut m = SlotMap::new();
            let base = 700 + rng.below(50) as S;
            for (k, x) in cls_slots.iter().enumerate() {
                let y = s.nm.slot(base + k as S);
                m.insert(*x, y);
            }
            invs.push(AppliedId::new(id, m));
        }
        if cls_slots.len() >= 2 {
            // an invocation that permutes the class's own slot names (rotation, or a swap)
            let k = cls_slots.len();
            let mut m = SlotMap::new();
            if rng.chance(1, 2) {
                for i in 0..k {
                    m.insert(cls_slots[i], cls_slots[(i + 1) % k]);
                }
            } else {
                for i in 0..k {
                    m.insert(cls_slots[i], cls_slots[i]);
                }
                m.insert(cls_slots[0], cls_slots[1]);
                m.insert(cls_slots[1], cls_slots[0]);
            }
            invs.push(AppliedId::new(id, m));
        }
        let mut lazy_next_fresh = false;
        if !cls_slots.is_empty() {
            // arguments spelled like the numeric names that stored shapes use internally ($0, $1, ..),
            // in order or reversed
            let k = cls_slots.len();
            let rev = rng.chance(1, 2);
            let mut m = SlotMap::new();
            for (i, x) in cls_slots.iter().enumerate() {
                m.insert(*x, Slot::numeric(if rev { (k - 1 - i) as u32 } else { i as u32 }));
            }
            invs.push(AppliedId::new(id, m));
            out.bump("invocations_with_shape_names");
            // an argument spelled like the very next fresh slot ($f<n> with n = the thread's counter):
            // the names the extractor invents during this call must stay apart from it
            // (built lazily, right before it is used: the other invocations draw fresh slots too)
            lazy_next_fresh = rng.chance(1, 3);
        }
        let finite = oracle.get(&id).map(|c| *c < u64::MAX).unwrap_or(false);
        if !finite {
            // the class contains no finite term: out of the property's scope
            out.bump("classes_without_finite_term");
            continue;
        }
        // an argument that is spelled like a bound slot which an earlier result of this extractor
        // showed (the user read the name off that result): it must not be captured
        if !cls_slots.is_empty() && !seen_bound.is_empty() {
            let b = seen_bound[rng.below(seen_bound.len())];
            if !cls_slots.contains(&b) {
                let mut m = SlotMap::new();
                for x in &cls_slots {
                    m.insert(*x, *x);
                }
                m.insert(cls_slots[rng.below(cls_slots.len())], b);
                invs.push(AppliedId::new(id, m));
                out.bump("invocations_with_a_shown_bound_name");
            }
        }
        let mut invs: Vec<Option<AppliedId>> = invs.into_iter().map(Some).collect();
        if lazy_next_fresh && finite {
            invs.insert(rng.below(invs.len() + 1), None);
        }
        for inv in invs {
            let inv = match inv {
                Some(i) => i,
                None => {
                    let probe = Slot::fresh().to_string();
                    let Some(nxt) = probe.strip_prefix("$f").and_then(|d| d.parse::<u64>().ok()) else { continue };
                    if nxt + 1 >= (1 << 30) {
                        continue;
                    }
                    let arg = Slot::named(&format!("f{}", nxt + 1));
                    let mut m = SlotMap::new();
                    for x in &cls_slots {
                        m.insert(*x, *x);
                    }
                    m.insert(cls_slots[rng.below(cls_slots.len())], arg);
                    out.bump("invocations_with_the_next_fresh_name");
                    AppliedId::new(id, m)
                }
            };
            let best = ex.get_best_cost::<N>(&inv);
            if Some(&best) != oracle.get(&id) {
                return Some(viol("best_cost_minimal", format!("class {id:?}: get_best_cost = {best}, value iteration over enodes gives {:?} ({kind:?})", oracle.get(&id)), at));
            }
            let re = ex.extract(&inv, &s.eg);
            // membership
            match lookup_rec_expr(&re, &s.eg) {
                None => return Some(viol("result_represented", format!("extract({inv:?}) = {re:?} cannot be looked up"), at)),
                Some(l) => {
                    if !s.eg.eq(&l, &inv) {
                        return Some(viol("result_represented", format!("extract({inv:?}) = {re:?} looks up to {l:?}, not equal to the query"), at));
                    }
                }
            }
            collect_bound(&re, &mut seen_bound);
            // free slots: arguments of the query or slots unknown to the simulator (brand new)
            let args = inv.slots();
            let tm = from_re::<L>(&re, &mut s.nm);
            for x in tm.free() {
                let real = s.nm.slot(x);
                if !args.contains(&real) && (!Naming::is_unknown(x) || existing.contains(&real) || shown_fresh.contains(&real)) {
                    return Some(viol("result_free_slots", format!("extract({inv:?}) = {tm} has the free slot ${x} which is neither an argument nor new"), at));
                }
                if !args.contains(&real) {
                    // a name invented for a redundant parameter: the caller may spell it later too
                    shown_fresh.insert(real);
                    if !seen_bound.contains(&real) && seen_bound.len() < 64 {
                        seen_bound.push(real);
                    }
                }
            }
            // cost recomputed independently
            let c2 = tm_cost::<L>(kind, &tm, &mut s.nm);
            let c3 = CostFunction::<L>::cost_rec(&SimCostFn(kind), &re);
            if c2 != best || c3 != best {
                return Some(viol("cost_consistent", format!("extract({inv:?}) = {tm}: recomputed cost {c2} (cost_rec {c3}) but reported best cost {best}"), at));
            }
            out.bump("extractions_checked");
        }
    }
    None
}

impl Check for ExtractCheck {
    fn id(&self) -> &'static str {
        "C06"
    }
    fn gen(&self, seed: u64, tier: Tier) -> Run {
        let mut run = gen_long_history("C06", seed, tier);
        let mut f = Rng::stream(seed, "extract");
        run.set("cost_fn", f.below(3) as i64);
        run.set("extract_every", if f.chance(1, 3) { 1 } else { 0 });
        run
    }
    fn rule(&self) -> &'static str {
        "seeded sess histories over LS (cyclic classes from self-referential unions, redundant slots, symmetric classes) under hash order / stride / buggify / probes; after the history (or after every operation) an Extractor is built for one of three strictly monotone cost functions and every live class with a finite term is extracted under the identity and a renamed invocation; membership via lookup_rec_expr + eq, cost recomputed on the term, minimality against value iteration M_cost, free slots of the result; non-trivial = at least one union changed the e-graph and at least 3 extractions were checked; distinct = distinct canonical key"
    }
    fn fault_kinds(&self) -> &'static [&'static str] {
        &["K1_hash_order", "K2_fresh_stride", "K3_probes", "K4_buggify", "K5_client_schedule"]
    }
    fn budget(&self, tier: Tier) -> u64 {
        match tier {
            Tier::Quick => 20_000,
            Tier::Thorough => 200_000,
        }
    }
    fn exec(&self, run: &Run) -> Outcome {
        let mut out = Outcome::default();
        seam::apply(&run.knobs());
        let mut s: Sess<LS, ()> = Sess::new(EGraph::new(()), run.get("naming") as u32);
        if run.get("companion") != 0 {
            s.enable_companion();
        }
        let kind = [SimCost::Size, SimCost::PositionWeighted, SimCost::OpWeighted][run.get("cost_fn").rem_euclid(3) as usize];
        let mut rng = Rng::stream(run.get("oracle_seed") as u64, "oracle-sampling");
        let every = run.get("extract_every") != 0;
        let mut changes = 0;
        let n = run.ops.len();
        for (k, op) in run.ops.iter().enumerate() {
            s.cur_op = k;
            let before = s.eg.progress();
            if catch_op(|| exec_sess_op(&mut s, op, run)).is_err() {
                out.discarded = Some("panic".into());
                break;
            }
            out.ops_executed += 1;
            if op.name == "union" && before != s.eg.progress() {
                changes += 1;
            }
            if every || k + 1 == n {
                match catch_op(|| check_extraction(&mut s, kind, &mut rng, &mut out, k)) {
                    Err(p) => {
                        if p.is_harness() {
                            panic!("harness panic: {} at {}", p.msg, p.loc);
                        }
                        out.violations.push(panic_violation("C06", "extraction_succeeds", &p, k));
                        break;
                    }
                    Ok(Some(v)) => {
                        out.violations.push(v);
                        break;
                    }
                    Ok(None) => {}
                }
                out.states.push(state_hash(&s.eg));
            }
        }
        for (name, c) in seam::take_probes() {
            out.count(&format!("probe:{name}"), c);
        }
        let knobs = run.knobs();
        if knobs.hash_seed != 0 {
            out.bump("K1_hash_order");
        }
        if out.counters.get("probe:fresh_stride_taken").copied().unwrap_or(0) > 0 {
            out.bump("K2_fresh_stride");
        }
        if run.get("probes") != 0 && run.ops.iter().any(|o| o.name == "probe") {
            out.bump("K3_probes");
        }
        if seam::buggify_fired(1) + seam::buggify_fired(2) > 0 {
            out.bump("K4_buggify");
        }
        if run.get("old_handles") != 0 || run.get("nodewise") != 0 || run.get("naming") != 0 {
            out.bump("K5_client_schedule");
        }
        out.log_hash = s.log_hash;
        let _ = BTreeMap::<u8, u8>::new();
        out.nontrivial = out.discarded.is_none() && changes >= 1 && out.counters.get("extractions_checked").copied().unwrap_or(0) >= 3;
        out
    }
}
