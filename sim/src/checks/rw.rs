//! The `rw` engine over LA with the simulator's analysis and rule pool:
//! C03 (rewriting preserves meaning), C14 (analysis data is the make/merge fixpoint),
//! C15 (saturation / stop reasons are truthful), C08R (C08's clauses under rewriting).

use super::extract::{m_cost, SimCost};
use super::sesscc::state_hash;
use super::{Check, Tier};
use crate::analysis::*;
use crate::exec::seam;
use crate::langs::*;
use crate::oracle::field::*;
use crate::rng::Rng;
use crate::rules::*;
use crate::run::*;
use crate::sess::*;
use crate::tm::*;
use slotted_egraphs::*;
use std::cell::RefCell;
use std::collections::{BTreeMap, HashMap};
use std::rc::Rc;

pub struct RwCheck {
    pub id: &'static str,
}

const PRIMES: [u32; 3] = [3, 5, 7];

fn viol(prop: &str, clause: &str, detail: String, at: usize) -> Violation {
    Violation { property: prop.into(), clause: clause.into(), kind: "mismatch".into(), sig: clause.into(), triggers: vec![], detail, at_op: at }
}

pub fn gen_rw_run(check: &str, seed: u64, tier: Tier) -> Run {
    let mut run = Run::new(check, seed);
    let mut w = Rng::stream(seed, "workload");
    let p = *w.pick(&PRIMES);
    run.set("p", p as i64);
    let nrules = rule_pool(p).len();
    // (own stream) a third user slot in a quarter of the runs: classes with three parameters
    let user: Vec<S> = if Rng::stream(seed, "user3").chance(1, 4) { vec![0, 1, 2] } else { vec![0, 1] };
    let mut binder = 100;
    // start terms
    let nstart = w.range(1, 2);
    let pool = rule_pool(p);
    let mut seeded_rules: Vec<i64> = Vec::new();
    for _ in 0..nstart {
        let k = w.range(0, user.len());
        let d = w.range(1, if tier == Tier::Quick { 3 } else { 4 });
        let t = if w.chance(2, 3) {
            // an instance of some rule's left side inside a random context: rules will fire
            let ri = w.below(nrules);
            seeded_rules.push(ri as i64);
            let inst = instance_of_left(&pool[ri], &mut w, &user[..k.max(1)], &mut binder);
            match w.below(4) {
                0 => inst,
                1 => Tm::node("add", vec![], vec![(vec![], inst), (vec![], random_la(&mut w, &user[..k], 1, &mut binder))]),
                2 => Tm::node("mul", vec![], vec![(vec![], random_la(&mut w, &user[..k], 1, &mut binder)), (vec![], inst)]),
                _ => {
                    let x = binder;
                    binder += 1;
                    Tm::node("sum", vec![], vec![(vec![x], Tm::node("add", vec![], vec![(vec![], inst), (vec![], Tm::leaf("var", vec![x]))]))])
                }
            }
        } else {
            random_la(&mut w, &user[..k], d, &mut binder)
        };
        run.ops.push(Op::new("add").t(t));
    }
    if w.chance(1, 10) {
        // a near-instance of the rule with a repeated free pattern slot: (a + x) - y with x != y must
        // not be matched by (?0 + $s) - $s (the slot map of a match has to be injective)
        let ri = pool.iter().position(|r| r.name == "add-sub-var").unwrap();
        seeded_rules.push(ri as i64);
        let a = random_la(&mut w, &user, 1, &mut binder);
        let (x, y) = if w.chance(1, 2) { (0, 1) } else { (1, 0) };
        let inner = if w.chance(1, 2) {
            Tm::node("add", vec![], vec![(vec![], a), (vec![], Tm::leaf("var", vec![x]))])
        } else {
            Tm::node("add", vec![], vec![(vec![], Tm::leaf("var", vec![x])), (vec![], a)])
        };
        let t = Tm::node("add", vec![], vec![(vec![], inner), (vec![], Tm::node("neg", vec![], vec![(vec![], Tm::leaf("var", vec![y]))]))]);
        run.ops.push(Op::new("add").t(t));
    }
    {
        // (own stream) a near-instance of a rule with a repeated variable: the second occurrence is the
        // first one with permuted slots. With the commutativity rules in the set, some of these
        // permutations are symmetries (then the rule must fire) and some are not (then it must not).
        let mut nr = Rng::stream(seed, "near-instance");
        if nr.chance(1, 7) {
            let cands = repeated_var_rules(&pool);
            let ri = *nr.pick(&cands);
            if let Some(t) = near_instance_of_left(&pool[ri], &mut nr, &user, &mut binder) {
                seeded_rules.push(ri as i64);
                for name in ["add-comm", "mul-comm"] {
                    if nr.chance(2, 3) {
                        seeded_rules.push(pool.iter().position(|r| r.name == name).unwrap() as i64);
                    }
                }
                run.ops.push(Op::new("add").t(t));
            }
        }
    }
    if w.chance(1, 6) {
        // two instances of the eq-conditioned rule in one e-graph: one where the condition holds
        // (a - a) and one where the two bindings are the same class invoked with swapped
        // arguments (a(x,y) - a(y,x)), which must NOT fire
        let eqs: Vec<usize> = (0..pool.len()).filter(|i| pool[*i].cond_eq.is_some()).collect();
        let ri = *w.pick(&eqs);
        let under_let = pool[ri].name == "let2-sub-eq";
        seeded_rules.push(ri as i64);
        let (x, y) = (binder, binder + 1);
        binder += 2;
        let mut t = random_la(&mut w, &[x, y], 2, &mut binder);
        if t.free().len() < 2 {
            t = Tm::node("add", vec![], vec![(vec![], Tm::leaf("var", vec![x])), (vec![], Tm::node("mul", vec![], vec![(vec![], Tm::leaf("var", vec![y])), (vec![], Tm::leaf("var", vec![y]))]))]);
        }
        let sw: BTreeMap<S, S> = [(x, y), (y, x)].into_iter().collect();
        let tsw = t.rename_keep_binders(&sw);
        // the two bound values (closed, different constants most of the time)
        let e1 = random_la(&mut w, &[], 1, &mut binder);
        let e2 = random_la(&mut w, &[], 1, &mut binder);
        let mk = |a: &Tm, b: &Tm| {
            let body = Tm::node("add", vec![], vec![(vec![], a.clone()), (vec![], Tm::node("neg", vec![], vec![(vec![], b.clone())]))]);
            if under_let {
                Tm::node("let", vec![], vec![(vec![x], Tm::node("let", vec![], vec![(vec![y], body), (vec![], e2.clone())])), (vec![], e1.clone())])
            } else {
                Tm::node("sum", vec![], vec![(vec![x], Tm::node("sum", vec![], vec![(vec![y], body)]))])
            }
        };
        let same = mk(&t, &t);
        let swapped = mk(&t, &tsw);
        if w.chance(1, 2) {
            run.ops.push(Op::new("add").t(same));
            run.ops.push(Op::new("add").t(swapped));
        } else {
            run.ops.push(Op::new("add").t(swapped));
            run.ops.push(Op::new("add").t(same));
        }
    }
    // a few equations between small terms that are valid in the model? No: unions of arbitrary
    // terms are not model-valid. Only rule applications (and for C14 also raw unions).
    let iters = w.range(1, if tier == Tier::Quick { 4 } else { 6 });
    for _ in 0..iters {
        let mut o = Op::new("rewrite");
        let k = w.range(1, 6);
        for _ in 0..k {
            o = o.i(w.below(nrules) as i64);
        }
        for r in &seeded_rules {
            if w.chance(2, 3) {
                o = o.i(*r);
            }
        }
        run.ops.push(o);
        if w.chance(1, 4) {
            let k = w.range(0, 2);
            let t = random_la(&mut w, &user[..k], 2, &mut binder);
            run.ops.push(Op::new("add").t(t));
        }
    }
    if w.chance(1, 4) {
        // drive the same rule sets through Runner::run instead of bare apply_rewrites
        for o in run.ops.iter_mut() {
            if o.name == "rewrite" {
                o.name = "runner".into();
                o.i.insert(0, 1 + w.below(3) as i64);
            }
        }
    }
    {
        // (own stream) wide start term: an alternating add / mul chain over 11-13 distinct variables in no
        // particular order (classes with up to 13 parameters; the crate's slot maps leave their inline
        // storage at 10 entries), plus commutativity / associativity steps that move and merge those classes
        let mut wr = Rng::stream(seed, "wide-la");
        // (not in proof-producing builds: a 13-parameter class there costs half a minute per rewriting step)
        if wr.chance(1, 14) && !cfg!(feature = "explanations") {
            let n = 11 + wr.below(3);
            let mut names: Vec<S> = (40..40 + n as S).collect();
            wr.shuffle(&mut names);
            let mut t = Tm::leaf("var", vec![names[0]]);
            for (i, x) in names.iter().enumerate().skip(1) {
                let v = Tm::leaf("var", vec![*x]);
                let op = if (i + wr.below(3)) % 2 == 0 { "add" } else { "mul" };
                t = if wr.chance(1, 2) { Tm::node(op, vec![], vec![(vec![], v), (vec![], t)]) } else { Tm::node(op, vec![], vec![(vec![], t), (vec![], v)]) };
            }
            let pos = run.ops.iter().position(|o| o.name != "add").unwrap_or(run.ops.len());
            run.ops.insert(pos, Op::new("add").t(t));
            let kind = if run.ops.iter().any(|o| o.name == "runner") { "runner" } else { "rewrite" };
            let mut o = Op::new(kind);
            if kind == "runner" {
                o = o.i(2);
            }
            for r in [0, 2, 1, 3] {
                o = o.i(r);
            }
            run.ops.push(o.clone());
            run.ops.push(o);
            run.set("wide_la", 1);
        }
    }
    run.set("subst_method", w.below(2) as i64);
    // ExtractionSubst builds an extractor per substitution: quadratic in the e-graph size
    let budgets: &[i64] = match (tier, run.get("subst_method")) {
        (Tier::Quick, 1) => &[60, 120, 200],
        (Tier::Quick, _) => &[100, 200, 400],
        (Tier::Thorough, 1) => &[200, 400, 800],
        (Tier::Thorough, _) => &[200, 600, 2000],
    };
    run.set("node_budget", *w.pick(budgets));
    if run.get("wide_la") != 0 {
        // 13-parameter classes make every rewriting step expensive: small e-graphs only
        run.set("node_budget", run.get("node_budget").min(150));
    }
    run.set("modify", w.chance(1, 2) as i64);
    let mut f = Rng::stream(seed, "faults");
    if f.chance(1, 2) {
        run.set("hash_seed", (f.next() >> 1) as i64 | 1);
    }
    if f.chance(2, 5) {
        run.set("stride_max", *f.pick(&[1, 3, 17, 200]));
        run.set("stride_seed", (f.next() >> 1) as i64);
    }
    if f.chance(1, 4) {
        run.set("buggify_mask", 1 + f.below(7) as i64);
        run.set("buggify_seed", (f.next() >> 1) as i64);
        if run.get("node_budget") > 200 {
            // site 4 (the smaller class survives a merge on ties) turns big rewriting runs quadratic in
            // time and worse in memory (a thorough-tier run with a 2000-node budget grew beyond 35 GB):
            // it stays on for small e-graphs only
            run.set("buggify_mask", run.get("buggify_mask") & 3);
        }
        if run.get("modify") != 0 {
            // site 4 (the other class survives a merge on ties) together with the unit-law part of the modify
            // hook (unions of slotted classes from inside a rebuild) gives wrong e-graphs in the SynExprSubst
            // rule `b[x := e]` (DESIGN.md 12.12, "open question"); the natural tie-break never did in
            // 90 000 runs with either orientation of the hook's unions. Site 4 is the simulator's own seam,
            // not shipped behaviour, so this is not reported; the combination is switched off.
            run.set("buggify_mask", run.get("buggify_mask") & 3);
        }
    }
    if f.chance(1, 2) {
        run.set("probes", 1 + f.below(50) as i64);
    }
    if f.chance(3, 10) {
        run.set("naming", 1 + f.below(NAMING_KINDS as usize - 1) as i64);
    }
    run.set("oracle_seed", (f.next() >> 1) as i64);
    // unconditional rules built by the crate's own Rewrite::new (own stream: other draws unchanged)
    run.set("crate_rules", Rng::stream(seed, "crate-rules").chance(1, 3) as i64);
    // naming kind 9: binder slots and repeated free slots of the rules are spelled like class slots too
    run.set("hint_binders", Rng::stream(seed, "hint-binders").chance(1, 2) as i64);
    // the Rewrite values are built once per run and applied at every rewriting step (all rules the run
    // mentions, every time) instead of being rebuilt per step
    run.set("persistent_rules", Rng::stream(seed, "persistent-rules").chance(1, 4) as i64);
    // ... and, in two thirds of those runs, to another e-graph first (same class ids / shifted class ids)
    run.set("decoy_first", [0, 1, 2, 3][Rng::stream(seed, "decoy-first").below(4)]);
    // (own stream) a companion e-graph in the same thread: same insertions and unions, the same Rewrite
    // values applied to it (all but the first) right before / after every rewriting step of the run
    run.set("companion", Rng::stream(seed, "companion").chance(1, 7) as i64);
    run
}

/// node budget of the run; proof-producing builds are several times slower per node
pub fn effective_budget(run: &Run) -> usize {
    let b = run.get("node_budget").max(50) as usize;
    if cfg!(feature = "explanations") {
        // proof chains make big e-graphs extremely slow to rewrite (a 600-node budget has cost ten
        // minutes of CPU for one run)
        (b / 3).clamp(40, 220)
    } else {
        b
    }
}

pub fn new_la_egraph(run: &Run) -> EGraph<LA, SimAn> {
    // (central place of every rw-based execution) rules through the crate's own Rewrite::new?
    crate::rules::VIA_CRATE.with(|c| c.set(run.get("crate_rules") != 0));
    HINT_BINDERS.with(|h| h.set(run.get("hint_binders") != 0));
    // a new e-graph starts a new execution (C11R runs two in one thread): rules built for the previous
    // one must not leak into it. (Inside a runner step the rules are held by the step at this point.)
    PERSISTENT_RULES.with(|c| *c.borrow_mut() = None);
    let an = SimAn { p: run.get("p").clamp(2, 11) as u32, modify: run.get("modify") != 0 };
    if run.get("subst_method") != 0 {
        EGraph::with_subst_method::<ExtractionSubst>(an)
    } else {
        EGraph::with_subst_method::<SynExprSubst>(an)
    }
}

/// naming kind 9: the names of some class slots, for rule slots that only a right side mentions
pub fn set_naming_hint(s: &Sess<LA, SimAn>) {
    let mut v: Vec<Slot> = Vec::new();
    if s.nm.kind == 9 {
        let mut ids = s.eg.ids();
        ids.sort();
        for id in ids.iter().rev() {
            let mut sl: Vec<Slot> = s.eg.slots(*id).iter().copied().collect();
            sl.sort();
            for x in sl {
                if !v.contains(&x) && v.len() < 10 {
                    v.push(x);
                }
            }
        }
    }
    NAMING_HINT.with(|h| *h.borrow_mut() = v);
}

pub fn make_rules(run: &Run, idxs: &[i64], nm: &mut Naming, probe_budget: Rc<RefCell<u64>>) -> Vec<Rewrite<LA, SimAn>> {
    let p = run.get("p").clamp(2, 11) as u32;
    let pool = rule_pool(p);
    let mut out = Vec::new();
    for i in idxs {
        let rule = &pool[i.rem_euclid(pool.len() as i64) as usize];
        let pb = probe_budget.clone();
        let probe: Option<Rc<dyn Fn(&EGraph<LA, SimAn>, &Subst)>> = if run.get("probes") != 0 {
            Some(Rc::new(move |eg: &EGraph<LA, SimAn>, sb: &Subst| {
                // K3 from inside an applier: canonicalise / compare the matched invocations
                let mut b = pb.borrow_mut();
                if *b == 0 {
                    return;
                }
                *b -= 1;
                for v in sb.values() {
                    let f = eg.find_applied_id(v);
                    let _ = eg.eq(v, &f);
                    let _ = eg.analysis_data(f.id);
                }
            }))
        } else {
            None
        };
        out.push(make_rewrite::<SimAn>(rule, nm, probe, None));
    }
    out
}

thread_local! {
    /// persistent-rules mode: the Rewrite values of the run, built once at its first rewriting step
    /// and applied again at every later one (rules are normally defined once and used many times)
    static PERSISTENT_RULES: RefCell<Option<Vec<Rewrite<LA, SimAn>>>> = RefCell::new(None);
}

/// persistent-rules mode, first rewriting step: the freshly built rules are applied to another e-graph
/// first (the run's start terms behind a filler term, so that its class ids are shifted), then to the
/// e-graph under test. Whatever a rule value remembers from the first e-graph must not matter.
fn warm_up_on_decoy(run: &Run, rules: &[Rewrite<LA, SimAn>]) {
    if run.get("decoy_first") == 0 {
        return;
    }
    let mut d: Sess<LA, SimAn> = Sess::new(new_la_egraph(run), run.get("naming") as u32);
    if run.get("decoy_first") == 2 {
        let n = |v: u32| Tm::pay("num", v);
        d.add_term(&Tm::node("mul", vec![], vec![(vec![], n(2)), (vec![], Tm::node("add", vec![], vec![(vec![], n(1)), (vec![], n(0))]))]), false);
    }
    // kind 3: a twin of the run's start terms with `add` and `mul` exchanged everywhere - an e-graph with
    // exactly the same progress measure (classes, slots, symmetries) on which other rules match
    fn twin(t: &Tm) -> Tm {
        let mut t = t.clone();
        if t.name() == "add" {
            t.op = crate::tm::op("mul");
        } else if t.name() == "mul" {
            t.op = crate::tm::op("add");
        }
        for k in t.kids.iter_mut() {
            k.t = twin(&k.t);
        }
        t
    }
    for op in run.ops.iter().filter(|o| o.name == "add") {
        if run.get("decoy_first") == 3 {
            d.add_term(&twin(&op.t[0]), false);
        } else {
            d.add_term(&op.t[0], false);
        }
    }
    let _ = apply_rewrites(&mut d.eg, rules);
}

/// all rule indices the run mentions, in order of first mention
fn all_rule_indices(run: &Run) -> Vec<i64> {
    let n = rule_pool(run.get("p").clamp(2, 11) as u32).len() as i64;
    let mut out: Vec<i64> = Vec::new();
    for o in &run.ops {
        let skip = match o.name.as_str() {
            "rewrite" => 0,
            "runner" => 1,
            _ => continue,
        };
        for i in o.i.iter().skip(skip) {
            let k = i.rem_euclid(n);
            if !out.contains(&k) {
                out.push(k);
            }
        }
    }
    out
}

/// executes one op of an LA trace; returns whether apply_rewrites reported a change
/// companion e-graph of an rw run: the step's Rewrite values (all but the first) applied once
fn companion_rewrite(s: &mut Sess<LA, SimAn>, rules: &[Rewrite<LA, SimAn>], run: &Run) {
    if let Some(mut c) = s.companion.take() {
        if c.total_number_of_nodes() <= effective_budget(run) {
            let r = apply_rewrites(&mut c, if rules.len() > 1 { &rules[1..] } else { rules });
            s.log(&format!("companion rewrite -> {r} {}", c.total_number_of_nodes()));
        }
        s.companion = Some(c);
    }
}

pub fn exec_la_op(s: &mut Sess<LA, SimAn>, op: &Op, run: &Run, pb: &Rc<RefCell<u64>>) -> Option<bool> {
    if run.get("companion") != 0 && s.companion.is_none() {
        s.enable_companion();
        s.companion_same_unions = true;
    }
    match op.name.as_str() {
        "add" => {
            s.companion_op(op);
            s.add_term(&op.t[0], false);
            None
        }
        "union" => {
            s.union_terms(&op.t[0], &op.t[1], op.int(0) != 0, false);
            s.companion_op(op);
            None
        }
        "probe" => {
            if run.get("probes") != 0 {
                run_probes(s, op.int(0), op.int(1) as u64);
            }
            None
        }
        "runner" => {
            // the same rules driven by Runner::run for a few iterations (i[0] = iteration limit)
            set_naming_hint(s);
            let persistent = run.get("persistent_rules") != 0;
            let rules = if persistent {
                match PERSISTENT_RULES.with(|c| c.borrow_mut().take()) {
                    Some(r) => r,
                    None => {
                        let r = make_rules(run, &all_rule_indices(run), &mut s.nm, pb.clone());
                        warm_up_on_decoy(run, &r);
                        r
                    }
                }
            } else {
                make_rules(run, &op.i[1..], &mut s.nm, pb.clone())
            };
            if s.cur_op % 2 == 0 {
                companion_rewrite(s, &rules, run);
            }
            let eg = std::mem::replace(&mut s.eg, new_la_egraph(run));
            let an = SimAn { p: run.get("p").clamp(2, 11) as u32, modify: run.get("modify") != 0 };
            let mut runner: Runner<LA, SimAn, (), String> = Runner::new(an)
                .with_egraph(eg)
                .with_iter_limit(op.int(0).clamp(0, 4) as usize)
                .with_node_limit(effective_budget(run));
            // put the e-graph back even if the library panics, then let the panic continue
            // (resume_unwind keeps the recorded panic information of the original panic)
            let r = std::panic::catch_unwind(std::panic::AssertUnwindSafe(|| runner.run(&rules)));
            s.eg = std::mem::replace(&mut runner.egraph, new_la_egraph(run));
            if r.is_ok() && s.cur_op % 2 == 1 {
                companion_rewrite(s, &rules, run);
            }
            if persistent {
                PERSISTENT_RULES.with(|c| *c.borrow_mut() = Some(rules));
            }
            if let Err(e) = r {
                std::panic::resume_unwind(e);
            }
            Some(true)
        }
        "rewrite" => {
            set_naming_hint(s);
            let persistent = run.get("persistent_rules") != 0;
            let rules = if persistent {
                match PERSISTENT_RULES.with(|c| c.borrow_mut().take()) {
                    Some(r) => r,
                    None => {
                        let r = make_rules(run, &all_rule_indices(run), &mut s.nm, pb.clone());
                        warm_up_on_decoy(run, &r);
                        r
                    }
                }
            } else {
                make_rules(run, &op.i, &mut s.nm, pb.clone())
            };
            if s.cur_op % 2 == 0 {
                companion_rewrite(s, &rules, run);
            }
            if run.get("probes") != 0 {
                MAKE_PROBE.with(|m| m.set(run.get("probes") as u64));
            }
            let r = std::panic::catch_unwind(std::panic::AssertUnwindSafe(|| apply_rewrites(&mut s.eg, &rules)));
            MAKE_PROBE.with(|m| m.set(0));
            if r.is_ok() && s.cur_op % 2 == 1 {
                companion_rewrite(s, &rules, run);
            }
            if persistent {
                PERSISTENT_RULES.with(|c| *c.borrow_mut() = Some(rules));
            }
            match r {
                Ok(r) => Some(r),
                Err(e) => std::panic::resume_unwind(e),
            }
        }
        o => panic!("harness: unknown rw op {o}"),
    }
}

/// C03 oracle on the current e-graph
fn semantic_check(s: &mut Sess<LA, SimAn>, p: u32, orng: &mut Rng, out: &mut Outcome, at: usize) -> Option<Violation> {
    let tables = class_tables(&s.eg, p);
    out.count("classes_with_table", tables.len() as u64);
    match check_tables(&s.eg, &tables, p, orng.next()) {
        Err(e) => return Some(viol("C03", "enode_denotes_class", e, at)),
        Ok(n) => out.count("enode_evaluations", n),
    }
    // classes with more than three slots: lazily evaluated representatives instead of tables
    let wide = s.eg.ids().iter().any(|i| s.eg.slots(*i).len() > crate::oracle::field::MAX_TABLE_SLOTS);
    let lv = if wide { Some(crate::oracle::field::lazy_vals(&s.eg)) } else { None };
    if let Some(lv) = &lv {
        match crate::oracle::field::check_wide(&s.eg, lv, p, orng.next()) {
            Err(e) => return Some(viol("C03", "enode_denotes_class", e, at)),
            Ok(n) => out.count("wide_enode_evaluations", n),
        }
    }
    // every inserted term equals its class table, and redundant slots do not matter
    for i in 0..s.tracked.len() {
        let tm = s.tracked[i].tm.clone();
        let h = s.tracked[i].h.clone();
        let f = s.eg.find_applied_id(&h);
        if !tables.contains_key(&f.id) && lv.is_none() {
            continue;
        }
        let free = tm.free_vec();
        for _ in 0..6 {
            let mut env: BTreeMap<S, u32> = BTreeMap::new();
            for x in &free {
                env.insert(*x, orng.below(p as usize) as u32);
            }
            let direct = eval_tm(&tm, &env, p);
            let mut cenv: HashMap<Slot, u32> = HashMap::new();
            for (cs, us) in f.m.iter() {
                let a = s.nm.unslot(us);
                match env.get(&a) {
                    Some(v) => {
                        cenv.insert(cs, *v);
                    }
                    None => return Some(viol("C03", "inserted_term_denotes_class", format!("{tm}: canonical invocation {f:?} mentions a slot that is not free in the term"), at)),
                }
            }
            use crate::oracle::field::ClassVals;
            if let Some(missing) = s.eg.slots(f.id).iter().find(|x| !cenv.contains_key(x)) {
                return Some(viol("C03", "inserted_term_denotes_class", format!("{tm}: its canonical invocation {f:?} passes nothing for the parameter {missing:?} of its class: the class depends on a slot the term is not told about"), at));
            }
            let tv = match tables.get(&f.id) {
                Some(tab) => tab.lookup(&cenv, p),
                None => match lv.as_ref().and_then(|lv| lv.class_value(f.id, cenv.clone(), &|_| 0, p)) {
                    Some(v) => v,
                    None => break,
                },
            };
            out.bump("inserted_term_evaluations");
            if tv != direct {
                return Some(viol(
                    "C03",
                    "inserted_term_denotes_class",
                    format!("{tm} evaluates to {direct} under {env:?} (mod {p}) but its class {f:?} denotes {tv}; dropped slots {:?}", free.iter().filter(|x| !f.slots().contains(&s.nm.slot(**x))).collect::<Vec<_>>()),
                    at,
                ));
            }
        }
    }
    None
}

/// C14 oracle on the current e-graph
fn analysis_check(s: &mut Sess<LA, SimAn>, p: u32, out: &mut Outcome, at: usize, tables_too: bool) -> Option<Violation> {
    if !tables_too {
        // raw unions are not model-valid: a wrong equation may legitimately join two constants
        CONST_CONFLICT.with(|c| c.set(None));
    }
    if let Some((a, b)) = CONST_CONFLICT.with(|c| c.get()) {
        return Some(viol("C14", "constant_conflict", format!("merge joined two different constants {a} and {b} (mod {p}) for one class"), at));
    }
    let ids = s.eg.ids();
    for id in &ids {
        let mut ns: Vec<LA> = s.eg.enodes(*id).into_iter().collect();
        ns.sort();
        let mut join: Option<AnData> = None;
        for n in &ns {
            let d = make_data(&s.eg, n);
            join = Some(match join {
                None => d,
                Some(j) => merge_data(j, d),
            });
        }
        let have = s.eg.analysis_data(*id).clone();
        out.bump("classes_recomputed");
        if let Some(mut j) = join {
            let mut have = have.clone();
            if !tables_too {
                // with raw (not model-valid) unions two different constants can be joined; the
                // constant component is then not monotone in the children and has no
                // well-defined fixpoint. Only the monotone components are compared.
                j.cst = None;
                have.cst = None;
            }
            if j != have {
                return Some(viol("C14", "datum_is_join_of_make", format!("class {id:?}: stored {have:?}, join of make over its {} e-nodes {j:?}", ns.len()), at));
            }
        }
    }
    // least fixpoint: size equals the independently computed min cost; depth likewise
    let best = m_cost(&s.eg, SimCost::Size);
    for id in &ids {
        let have = s.eg.analysis_data(*id).clone();
        if let Some(b) = best.get(id) {
            if *b != have.size {
                return Some(viol("C14", "size_is_least_fixpoint", format!("class {id:?}: analysis size {} but the cheapest represented term has size {b}", have.size), at));
            }
        }
    }
    if tables_too {
        let tables = class_tables(&s.eg, p);
        for id in &ids {
            if let (Some(c), Some(t)) = (s.eg.analysis_data(*id).cst, tables.get(id)) {
                out.bump("constants_compared_with_model");
                if t.is_constant() != Some(c) {
                    return Some(viol("C14", "constant_is_model_value", format!("class {id:?}: analysis says constant {c} (mod {p}) but the class denotes {:?}", t.vals), at));
                }
            }
        }
    }
    // equal invocations share one datum
    for i in 0..s.tracked.len() {
        let h = s.tracked[i].h.clone();
        let f = s.eg.find_applied_id(&h);
        if s.eg.analysis_data(h.id) != s.eg.analysis_data(f.id) {
            return Some(viol("C14", "equal_classes_share_datum", format!("{h:?} and its canonical form {f:?} have different data"), at));
        }
    }
    None
}

/// Independent fingerprint of the observable state: it uses ids/slots/enodes/eq only, never
/// EGraph::progress (whose truthfulness C15 is about).
fn fingerprint<L: SimLang, N: Analysis<L>>(s: &mut Sess<L, N>) -> String {
    let ids = s.eg.ids();
    let live = ids.len();
    let slot_sum: usize = ids.iter().map(|i| s.eg.slots(*i).len()).sum();
    let mut part: Vec<(usize, usize)> = Vec::new();
    // equality partition over tracked terms (identity renaming) + kept slot counts
    let n = s.tracked.len();
    let mut syms = 0usize;
    for i in 0..n {
        let hi = s.tracked[i].h.clone();
        let f = s.eg.find_applied_id(&hi);
        part.push((f.id.0, f.slots().len()));
        // symmetries by probing eq with every permutation of the kept slots (up to 4 slots)
        let ks: Vec<Slot> = f.slots().iter().copied().collect();
        if ks.len() >= 2 && ks.len() <= 4 && i < 16 {
            let mut idx: Vec<usize> = (0..ks.len()).collect();
            // Heap's algorithm, iterative
            let mut c = vec![0usize; ks.len()];
            let mut probe = |idx: &Vec<usize>, s: &mut Sess<L, N>| {
                let mut m = SlotMap::new();
                for (a, b) in idx.iter().enumerate() {
                    m.insert(ks[a], ks[*b]);
                }
                if s.eg.eq(&f, &f.apply_slotmap_partial(&m)) {
                    1
                } else {
                    0
                }
            };
            syms += probe(&idx, s);
            let mut k = 0;
            while k < ks.len() {
                if c[k] < k {
                    if k % 2 == 0 {
                        idx.swap(0, k);
                    } else {
                        idx.swap(c[k], k);
                    }
                    syms += probe(&idx, s);
                    c[k] += 1;
                    k = 0;
                } else {
                    c[k] = 0;
                    k += 1;
                }
            }
        }
    }
    let mut eqs = String::new();
    for i in 0..n.min(12) {
        for j in (i + 1)..n.min(12) {
            let a = s.tracked[i].h.clone();
            let b = s.tracked[j].h.clone();
            eqs.push(if s.eg.eq(&a, &b) { '1' } else { '0' });
        }
    }
    // class ids are not observable facts; use the partition structure only
    let mut canon: HashMap<usize, usize> = HashMap::new();
    let part: Vec<(usize, usize)> = part
        .into_iter()
        .map(|(id, k)| {
            let l = canon.len();
            (*canon.entry(id).or_insert(l), k)
        })
        .collect();
    format!("{}/{}/{}/{}/{}/{:?}/{}", s.eg.total_number_of_nodes(), live, slot_sum, syms, state_hash(&s.eg), part, eqs)
}

impl Check for RwCheck {
    fn id(&self) -> &'static str {
        self.id
    }
    fn gen(&self, seed: u64, tier: Tier) -> Run {
        let mut run = gen_rw_run(self.id, seed, tier);
        if self.id == "C11R" || self.id == "C07S" {
            if self.id == "C11R" {
                let mut w = Rng::stream(seed, "naming");
                run.set("naming", 0);
                run.set("naming_b", 1 + w.below(NAMING_KINDS as usize - 1) as i64);
                if w.chance(1, 4) {
                    // rule slots spelled like class slots read off the e-graph
                    run.set("naming_b", 9);
                }
            }
            // C07S: the modify hook unites without a justification, and the proof checker has no
            // instance test for the b[x := t] form
            run.set("modify", 0);
            // b[x := t] picks a representative term of b by extraction / by class creation
            // order, which is a documented tie-break by hash order: not part of C11's claim
            let subst_rule = rule_pool(run.get("p") as u32).iter().position(|r| r.name == "let-subst").unwrap() as i64;
            let n = rule_pool(run.get("p") as u32).len() as i64;
            for o in run.ops.iter_mut() {
                if o.name == "rewrite" || o.name == "runner" {
                    let skip = if o.name == "runner" { 1 } else { 0 };
                    for i in o.i.iter_mut().skip(skip) {
                        if i.rem_euclid(n) == subst_rule {
                            *i = 0;
                        }
                    }
                }
            }
        }
        if self.id == "C20A" {
            run.set("modify", 1);
            run.set("probes", 0);
        }
        if self.id == "C14" || self.id == "C20A" || (self.id == "C08R" && seed % 2 == 0) || (self.id == "C13R" && seed % 3 == 0) {
            // also raw unions (not model-valid): analysis propagation does not need validity
            let mut w = Rng::stream(seed, "unions");
            let mut binder = 300;
            let n = w.range(0, 4);
            for _ in 0..n {
                let a = random_la(&mut w, &[0, 1], 2, &mut binder);
                let mut b = random_la(&mut w, &[0, 1], 2, &mut binder);
                if w.chance(1, 3) {
                    // self-referential equation a = f(a, ..)
                    let name = if w.chance(1, 2) { "add" } else { "mul" };
                    b = if w.chance(1, 2) { Tm::node(name, vec![], vec![(vec![], a.clone()), (vec![], b)]) } else { Tm::node(name, vec![], vec![(vec![], b), (vec![], a.clone())]) };
                }
                let pos = w.below(run.ops.len() + 1);
                run.ops.insert(pos, Op::new("union").t(a).t(b).i(w.below(2) as i64));
            }
            if w.chance(1, 5) {
                // self-reference that collapses by congruence: X = f(X, B), then B = C while
                // f(X, C) already exists
                let x = random_la(&mut w, &[0, 1], 1, &mut binder);
                let b = random_la(&mut w, &[0, 1], 1, &mut binder);
                let c = random_la(&mut w, &[0, 1], 2, &mut binder);
                let name = if w.chance(1, 2) { "add" } else { "mul" };
                let f = |l: &Tm, r: &Tm| Tm::node(name, vec![], vec![(vec![], l.clone()), (vec![], r.clone())]);
                let pos = w.below(run.ops.len() + 1);
                let (u1, u2) = if w.chance(1, 2) { (b.clone(), c.clone()) } else { (c.clone(), b.clone()) };
                run.ops.insert(pos, Op::new("union").t(u1).t(u2).i(w.below(2) as i64));
                run.ops.insert(pos, Op::new("union").t(x.clone()).t(f(&x, &b)).i(w.below(2) as i64));
                run.ops.insert(pos, Op::new("add").t(f(&x, &c)));
            }
            run.set("modify", 0);
            if w.chance(1, 2) {
                // with modify only for runs without raw unions (a wrong equation may join constants)
                run.ops.retain(|o| o.name != "union");
                run.set("modify", 1);
            }
        }
        run
    }
    fn rule(&self) -> &'static str {
        match self.id {
            "C03" => "1-2 seeded start terms over LA (arithmetic mod p in {3,5,7}, a summation binder over {0,1}, a let binder, a weighted sum with a child before its binder, uninterpreted constants), 1-6 iterations of apply_rewrites with a seeded subset of the 35 model-valid rules (incl. side conditions through Rewrite::new_if, two eq-conditioned rules with paired true/false instances) (each rule validated against M_field on 200 random instances at start-up), both substitution methods, optional constant-folding modify hook, probes from inside appliers and Analysis::make; after every iteration every e-node of every class with at most 3 slots is evaluated against its class table under all environments and two assignments of its redundant slots, every inserted term is evaluated directly; non-trivial = at least one iteration changed the e-graph and at least 50 e-node evaluations were compared; distinct = distinct canonical key",
            "C14" => "seeded LA histories of insertions, raw unions (runs without modify) and rewrite iterations with the simulator's analysis (min size, min depth, constant value mod p with optional modify hook); after every operation every live class's datum is recomputed as the join of make over its e-nodes, size is compared with value-iteration min cost, constants with the class's model table, equal invocations share one datum; non-trivial = at least one operation changed the e-graph after the first insertion and at least 10 classes were recomputed; distinct = distinct canonical key",
            "C11R" => "the C03 workload executed twice with identical knobs but different slot namings; the naming-independent fingerprint (node count, live classes, slot and symmetry sums, per-class (slots, nodes) multiset, equality partition and eq-matrix over all inserted terms), the analysis data and the best extraction cost of every inserted term must agree after every operation; non-trivial = at least one iteration changed the e-graph; distinct = distinct canonical key",
            "C06R" => "the C03 workload (rewriting over LA: cyclic classes, classes whose cheapest node has redundant slots); after every rewrite iteration an Extractor for one of three strictly monotone cost functions is built and every live class with a finite term is extracted under three invocations (identity, renamed, own slots permuted) and checked as in C06; non-trivial = at least one iteration changed the e-graph and 3 extractions were checked; distinct = distinct canonical key",
            "C13R" => "the C03 workload as a history: after every operation (insertions and rewrite iterations) the equal pairs recorded at earlier points, all old handles, per-term slot counts and the direction of the progress measure are re-checked; non-trivial = at least one change and at least one recorded pair re-checked; distinct = distinct canonical key",
            "C07S" => "explanations build: the C03 workload (rewriting over LA through apply_rewrites and Runner::run, conditional rules, rules that move terms under binders; without the b[x := t] rule and the modify hook); after every iteration explain_equivalence is asked why sampled inserted terms equal the smallest term of their class and each other, and the proof DAG is re-checked by M_proof with explicit leaves accepted only as instances of a pool rule carrying that rule's name; non-trivial = at least one iteration changed the e-graph and at least one rule leaf was checked; distinct = distinct canonical key",
            "C05R" => "the C03 workload (rewriting over LA: big, cyclic, redundant-slot classes); after every iteration the left patterns of the rules just applied and of 3 further pool rules are matched with ematch_all: every substitution binds every variable, the instantiated pattern is found by bottom-up lookup (nothing inserted), the fingerprint is unchanged; non-trivial = at least one iteration changed the e-graph and 5 substitutions were validated; distinct = distinct canonical key",
            "C09R" => "the C03 workload; after every iteration sampled inserted terms (alpha-renamed) and the smallest term of their class are looked up (lookup_rec_expr must succeed, agree with the old handle, leave the fingerprint unchanged) and inserted again (no class may be allocated, the result equals the old handle and carries exactly the canonical handle's slots); non-trivial = at least one iteration changed the e-graph and 3 terms were re-inserted; distinct = distinct canonical key",
            "C20A" => "the C03 workload over LA with the simulator's analysis and its modify hook (constant folding inserts and unites inside rebuild) plus raw unions, executed twice, each time in a fresh thread with the same knobs; the transcripts (per operation: result, progress measure, node count, ids, and per class its slots, e-nodes in listing order and datum) must be identical; non-trivial = at least one iteration changed the e-graph; distinct = distinct canonical key",
            "C08R" => "the C03 workload (rewriting over LA with analysis, modify hook, both substitution methods) checked only for C08's clauses: no panic / fuel exhaustion in any operation, EGraph::check and the API-level structure clauses after every operation; non-trivial = at least one iteration changed the e-graph; distinct = distinct canonical key",
            _ => "",
        }
    }
    fn fault_kinds(&self) -> &'static [&'static str] {
        &["K1_hash_order", "K2_fresh_stride", "K3_probes", "K4_buggify", "K5_client_schedule", "K8_subst_method"]
    }
    fn budget(&self, tier: Tier) -> u64 {
        match tier {
            Tier::Quick => 16_000,
            Tier::Thorough => 80_000,
        }
    }
    fn exec(&self, run: &Run) -> Outcome {
        if self.id == "C11R" {
            return exec_c11r(run);
        }
        if self.id == "C20A" {
            return exec_c20a(run);
        }
        let mut out = Outcome::default();
        seam::apply(&run.knobs());
        CONST_CONFLICT.with(|c| c.set(None));
        let p = run.get("p").clamp(2, 11) as u32;
        let mut s: Sess<LA, SimAn> = Sess::new(new_la_egraph(run), run.get("naming") as u32);
        let mut orng = Rng::stream(run.get("oracle_seed") as u64, "oracle-sampling");
        let pb = Rc::new(RefCell::new(200u64));
        let budget = effective_budget(run);
        let mut changes = 0;
        let c03 = self.id == "C03";
        let c14 = self.id == "C14";
        let c08 = self.id == "C08R";
        let c06 = self.id == "C06R";
        let c13 = self.id == "C13R";
        let c07 = self.id == "C07S";
        let c05 = self.id == "C05R";
        let c09 = self.id == "C09R";
        let prop = if c08 { "C08" } else { self.id };
        let cost_kind = [SimCost::Size, SimCost::PositionWeighted, SimCost::OpWeighted][(run.get("oracle_seed") % 3) as usize];
        let mut recorded_pairs: Vec<(AppliedId, AppliedId, usize)> = Vec::new();
        let mut prev_progress = s.eg.progress();
        let mut prev_slots: Vec<usize> = Vec::new();
        for (k, op) in run.ops.iter().enumerate() {
            s.cur_op = k;
            if s.eg.total_number_of_nodes() > budget && (op.name == "rewrite" || op.name == "runner") {
                out.bump("node_budget_reached");
                continue;
            }
            let before = s.eg.progress();
            let r = catch_op(|| exec_la_op(&mut s, op, run, &pb));
            out.ops_executed += 1;
            match r {
                Err(pn) => {
                    if pn.msg.starts_with("harness:") || pn.is_harness() {
                        panic!("harness panic: {} at {}", pn.msg, pn.loc);
                    }
                    if c08 || std::env::var("SIM_PANIC_AS_VIOLATION").is_ok() {
                        out.violations.push(panic_violation("C08", "no_panic", &pn, k));
                    } else {
                        out.discarded = Some("panic".into());
                    }
                    break;
                }
                Ok(_) => {}
            }
            if before != s.eg.progress() && k > 0 {
                changes += 1;
            }
            let res = catch_op(|| -> Option<Violation> {
                if c03 && (op.name == "rewrite" || op.name == "runner") {
                    return semantic_check(&mut s, p, &mut orng, &mut out, k);
                }
                if c07 && (op.name == "rewrite" || op.name == "runner") {
                    return super::explain::check_rw_proofs(&mut s, p, &mut orng, &mut out, k);
                }
                if c05 && (op.name == "rewrite" || op.name == "runner") {
                    let pool = rule_pool(p);
                    let skip = if op.name == "runner" { 1 } else { 0 };
                    let mut idxs: Vec<usize> = op.i.iter().skip(skip).map(|i| i.rem_euclid(pool.len() as i64) as usize).collect();
                    for _ in 0..3 {
                        idxs.push(orng.below(pool.len()));
                    }
                    idxs.sort();
                    idxs.dedup();
                    for ri in idxs {
                        let rule = &pool[ri];
                        let cp: Pattern<LA> = rule.l.to_pattern::<LA>(&mut s.nm);
                        let mut vars = Vec::new();
                        rule.l.vars(&mut vars);
                        let fp0 = (state_hash(&s.eg), s.eg.total_number_of_nodes());
                        let ms = ematch_all(&s.eg, &cp);
                        let fp1 = (state_hash(&s.eg), s.eg.total_number_of_nodes());
                        if fp0 != fp1 {
                            return Some(viol("C05", "matching_modifies", format!("ematch_all({}) changed the fingerprint", rule.l), k));
                        }
                        out.count("single_matches", ms.len() as u64);
                        for m in ms.iter().take(40) {
                            for v in &vars {
                                if !m.contains_key(&pvar_name(*v)) {
                                    return Some(viol("C05", "all_variables_bound", format!("ematch_all({}) returned a substitution without ?{v}: {m:?}", rule.l), k));
                                }
                            }
                            if let Err(e) = super::matching::lookup_pattern(&cp, m, &s.eg) {
                                return Some(viol("C05", "match_is_represented", format!("ematch_all({}) returned {m:?} but {e}", rule.l), k));
                            }
                            out.bump("substitutions_validated");
                        }
                    }
                    return None;
                }
                if c09 && (op.name == "rewrite" || op.name == "runner") {
                    let nt = s.tracked.len();
                    if nt == 0 {
                        return None;
                    }
                    let ex = Extractor::<LA, AstSize>::new(&s.eg, AstSize);
                    let mut cands: Vec<(Tm, AppliedId)> = Vec::new();
                    for _ in 0..4 {
                        let i = orng.below(nt);
                        let h = s.tracked[i].h.clone();
                        let mut fr = 7000 + 50 * k as S;
                        let t = s.tracked[i].tm.rename(&BTreeMap::new(), &mut fr);
                        cands.push((t, h.clone()));
                        let small = ex.extract(&s.eg.find_applied_id(&h), &s.eg);
                        cands.push((from_re::<LA>(&small, &mut s.nm), h));
                    }
                    drop(ex);
                    for (t, h) in cands {
                        let re = to_re::<LA>(&t, &mut s.nm);
                        let fp0 = (state_hash(&s.eg), s.eg.total_number_of_nodes(), s.eg.progress().number_of_classes);
                        let found = lookup_rec_expr(&re, &s.eg);
                        let fp1 = (state_hash(&s.eg), s.eg.total_number_of_nodes(), s.eg.progress().number_of_classes);
                        if fp0 != fp1 {
                            return Some(viol("C09", "lookup_modifies", format!("lookup_rec_expr({t}) changed the e-graph"), k));
                        }
                        let Some(found) = found else {
                            return Some(viol("C09", "present_not_found", format!("{t} is represented (inserted earlier or extracted from the class of an inserted term) but lookup_rec_expr fails"), k));
                        };
                        if !s.eg.eq(&found, &h) {
                            return Some(viol("C09", "lookup_result_not_equal_existing", format!("lookup_rec_expr({t}) = {found:?} is not equal to the existing invocation {h:?}"), k));
                        }
                        let added = s.eg.add_expr(re);
                        let fp2 = (state_hash(&s.eg), s.eg.total_number_of_nodes(), s.eg.progress().number_of_classes);
                        if fp2.2 != fp0.2 {
                            return Some(viol("C09", "known_term_creates_class", format!("add_expr({t}) allocated {} classes although the term is represented", fp2.2 - fp0.2), k));
                        }
                        if !s.eg.eq(&added, &h) || !s.eg.eq(&added, &found) {
                            return Some(viol("C09", "result_not_equal_existing", format!("add_expr({t}) = {added:?} is not equal to the existing invocation {h:?} / lookup result {found:?}"), k));
                        }
                        let canon = s.eg.find_applied_id(&h);
                        if added.slots() != canon.slots() {
                            return Some(viol("C09", "result_slots", format!("add_expr({t}) = {added:?} but the canonical handle is {canon:?}"), k));
                        }
                        out.bump("terms_reinserted");
                    }
                    return None;
                }
                if c14 {
                    let raw_unions = run.ops.iter().any(|o| o.name == "union");
                    return analysis_check(&mut s, p, &mut out, k, !raw_unions);
                }
                if c08 {
                    return match c08_structure(&mut s) {
                        Ok(()) => None,
                        Err((clause, detail)) => Some(viol("C08", &clause, detail, k)),
                    };
                }
                if c06 && (op.name != "add" || k + 1 == run.ops.len()) {
                    return super::extract::check_extraction(&mut s, cost_kind, &mut orng, &mut out, k);
                }
                if c13 {
                    // history checker under rewriting: recorded equalities, slot counts, progress
                    let now = s.eg.progress();
                    let ok = if now.number_of_classes != prev_progress.number_of_classes {
                        now.number_of_classes > prev_progress.number_of_classes
                    } else if now.number_of_live_classes != prev_progress.number_of_live_classes {
                        now.number_of_live_classes < prev_progress.number_of_live_classes
                    } else if now.sum_of_slots != prev_progress.sum_of_slots {
                        now.sum_of_slots < prev_progress.sum_of_slots
                    } else {
                        now.sum_of_symmetries >= prev_progress.sum_of_symmetries
                    };
                    if !ok {
                        return Some(viol("C13", "progress_direction", format!("progress moved against its documented direction at {}", op.short()), k));
                    }
                    prev_progress = now;
                    for (a, b, at) in &recorded_pairs {
                        if !s.eg.eq(a, b) {
                            return Some(viol("C13", "equality_lost", format!("{a:?} = {b:?} held after op {at} but not after op {k}"), k));
                        }
                    }
                    out.count("recorded_pairs_rechecked", recorded_pairs.len() as u64);
                    for i in 0..s.tracked.len() {
                        let h = s.tracked[i].h.clone();
                        let f = s.eg.find_applied_id(&h);
                        if !s.eg.is_alive(f.id) || !s.eg.eq(&h, &f) {
                            return Some(viol("C13", "old_handle_unusable", format!("old handle {h:?} canonicalises to {f:?} which is dead or unequal"), k));
                        }
                        let n = f.slots().len();
                        if i < prev_slots.len() {
                            if n > prev_slots[i] {
                                return Some(viol("C13", "slots_only_shrink", format!("{}: {} slots before, {n} now", s.tracked[i].tm, prev_slots[i]), k));
                            }
                            prev_slots[i] = n;
                        } else {
                            prev_slots.push(n);
                        }
                    }
                    let nt = s.tracked.len();
                    for i in 0..nt.min(10) {
                        for j in (i + 1)..nt.min(10) {
                            let a = s.tracked[i].h.clone();
                            let b = s.tracked[j].h.clone();
                            if recorded_pairs.len() < 200 && s.eg.eq(&a, &b) && !recorded_pairs.iter().any(|(x, y, _)| *x == a && *y == b) {
                                recorded_pairs.push((a, b, k));
                            }
                        }
                    }
                }
                None
            });
            match res {
                Err(pn) => {
                    if pn.msg.starts_with("harness:") || pn.is_harness() {
                        panic!("harness panic: {} at {}", pn.msg, pn.loc);
                    }
                    if c08 {
                        out.violations.push(panic_violation("C08", "check", &pn, k));
                    } else if c06 {
                        out.violations.push(panic_violation("C06", "extraction_succeeds", &pn, k));
                    } else if c13 {
                        out.violations.push(panic_violation("C13", "old_handle_unusable", &pn, k));
                    } else if c07 {
                        out.violations.push(panic_violation("C07", "explain_returns", &pn, k));
                    } else if c05 {
                        out.violations.push(panic_violation("C05", "matching_panics", &pn, k));
                    } else if c09 {
                        out.violations.push(panic_violation("C09", "no_panic", &pn, k));
                    } else {
                        out.discarded = Some("panic_in_query".into());
                    }
                    break;
                }
                Ok(Some(v)) => {
                    out.violations.push(v);
                    break;
                }
                Ok(None) => {}
            }
            out.states.push(state_hash(&s.eg));
        }
        let _ = prop;
        let (mk, mg, md) = AN_CALLS.with(|c| c.replace((0, 0, 0)));
        out.count("analysis_make_calls", mk);
        out.count("analysis_merge_calls", mg);
        out.count("analysis_modify_calls", md);
        super::matching::finish_counters(&mut out, run);
        if run.get("probes") != 0 {
            out.bump("K3_probes");
        }
        out.bump("K8_subst_method");
        out.count("final_nodes", s.eg.total_number_of_nodes() as u64);
        out.log_hash = s.log_hash ^ crate::rng::hash_str(&fingerprint(&mut s));
        let evals = out.counters.get("enode_evaluations").copied().unwrap_or(0);
        let recomputed = out.counters.get("classes_recomputed").copied().unwrap_or(0);
        let extr = out.counters.get("extractions_checked").copied().unwrap_or(0);
        let rechecked = out.counters.get("recorded_pairs_rechecked").copied().unwrap_or(0);
        out.nontrivial = out.discarded.is_none() && changes >= 1 && ((c03 && evals >= 50) || (c14 && recomputed >= 10) || c08 || (c06 && extr >= 3) || (c13 && rechecked >= 1) || (c05 && out.counters.get("substitutions_validated").copied().unwrap_or(0) >= 5) || (c09 && out.counters.get("terms_reinserted").copied().unwrap_or(0) >= 3) || (c07 && out.counters.get("rule_leaves_checked").copied().unwrap_or(0) >= 1));
        out
    }
}

/// C11 under rewriting: the same LA trace under two namings, compared after every operation
fn exec_c11r(run: &Run) -> Outcome {
    let mut out = Outcome::default();
    let knobs = run.knobs();
    let nb = if run.get("naming_b") == run.get("naming") { (run.get("naming") + 1).rem_euclid(NAMING_KINDS as i64) } else { run.get("naming_b").rem_euclid(NAMING_KINDS as i64) };
    let mut observed: Vec<Vec<String>> = Vec::new();
    let mut changes = 0;
    for naming in [run.get("naming").rem_euclid(NAMING_KINDS as i64) as u32, nb as u32] {
        seam::apply(&knobs);
        CONST_CONFLICT.with(|c| c.set(None));
        let mut s: Sess<LA, SimAn> = Sess::new(new_la_egraph(run), naming);
        let pb = Rc::new(RefCell::new(200u64));
        let budget = effective_budget(run);
        let mut obs: Vec<String> = Vec::new();
        for (k, op) in run.ops.iter().enumerate() {
            s.cur_op = k;
            if s.eg.total_number_of_nodes() > budget && (op.name == "rewrite" || op.name == "runner") {
                obs.push("skipped".into());
                continue;
            }
            let before = s.eg.progress();
            if catch_op(|| exec_la_op(&mut s, op, run, &pb)).is_err() {
                out.discarded = Some("panic".into());
                return out;
            }
            out.ops_executed += 1;
            if before != s.eg.progress() && k > 0 {
                changes += 1;
            }
            let o = catch_op(|| {
                // only the observables C11 names: no node counts (they legitimately depend on
                // hash-order tie-breaks, and the hash of a node depends on its slot names)
                let full = fingerprint(&mut s);
                let parts: Vec<&str> = full.split('/').collect();
                let mut f = format!("{}/{}/{}/{}/{}", parts[1], parts[2], parts[3], parts[5], parts[6]);
                let ex = Extractor::<LA, super::extract::SimCostFn>::new(&s.eg, super::extract::SimCostFn(SimCost::Size));
                for i in 0..s.tracked.len() {
                    let h = s.tracked[i].h.clone();
                    let fh = s.eg.find_applied_id(&h);
                    let d = s.eg.analysis_data(fh.id).clone();
                    let mut kept: Vec<S> = fh.slots().iter().map(|x| s.nm.unslot(*x)).collect();
                    kept.sort();
                    let cost = ex.get_best_cost::<SimAn>(&fh);
                    f.push_str(&format!("|{:?}{:?}c{}", d, kept, cost));
                }
                f
            });
            match o {
                Ok(f) => obs.push(f),
                Err(_) => {
                    out.discarded = Some("panic_in_query".into());
                    return out;
                }
            }
            out.states.push(state_hash(&s.eg));
        }
        observed.push(obs);
    }
    for (k, (a, b)) in observed[0].iter().zip(observed[1].iter()).enumerate() {
        if a != b {
            out.violations.push(Violation {
                property: "C11".into(),
                clause: "rewriting_observables".into(),
                kind: "mismatch".into(),
                sig: "naming_dependence".into(),
                triggers: vec![],
                detail: format!("after op {k} ({}) the observables differ between namings {} and {nb}: {a} vs {b}", run.ops[k].short(), run.get("naming")),
                at_op: k,
            });
            break;
        }
    }
    super::matching::finish_counters(&mut out, run);
    out.bump("K5_client_schedule");
    out.log_hash = crate::rng::hash_str(&format!("{:?}", observed[0]));
    out.nontrivial = out.discarded.is_none() && changes >= 2;
    out
}

/// C15, driver 3: a k-slot leaf (optionally with parents); each apply_rewrites call applies one
/// slot-permuting rule p_k($0..) => p_k(pi($0..)). A call that only makes the class's symmetry
/// group grow must still report a change.
fn exec_symmetry_growth(run: &Run) -> Outcome {
    let mut out = Outcome::default();
    seam::apply(&run.knobs());
    let k = run.get("leaf_slots").clamp(2, 4) as usize;
    let mut s: Sess<LS, ()> = Sess::new(EGraph::new(()), run.get("naming") as u32);
    let base: Vec<S> = (0..k as S).collect();
    let leaf = Tm::leaf(&format!("p{k}"), base.clone());
    let setup = catch_op(|| {
        s.add_term(&leaf, false);
        for p in 0..run.get("parents").rem_euclid(3) {
            let t = if p == 0 { Tm::node("u", vec![], vec![(vec![], leaf.clone())]) } else { Tm::node("g", vec![0], vec![(vec![], leaf.clone())]) };
            s.add_term(&t, false);
        }
    });
    if setup.is_err() {
        out.discarded = Some("panic".into());
        return out;
    }
    let perms: Vec<i64> = run.ops.iter().find(|o| o.name == "perms").map(|o| o.i.clone()).unwrap_or_default();
    let mut changed_any = false;
    for (it, pi) in perms.iter().enumerate() {
        // the pi-th permutation of the k slots (lexicographic unranking)
        let mut avail: Vec<S> = base.clone();
        let mut n = pi.rem_euclid((1..=k as i64).product()) as usize;
        let mut image: Vec<S> = Vec::new();
        for i in (0..k).rev() {
            let f: usize = (1..=i).product();
            image.push(avail.remove(n / f.max(1)));
            n %= f.max(1);
        }
        let l: Pattern<LS> = Pat::from_tm(&leaf).to_pattern::<LS>(&mut s.nm);
        let r: Pattern<LS> = Pat::from_tm(&Tm::leaf(&format!("p{k}"), image.clone())).to_pattern::<LS>(&mut s.nm);
        let l2 = l.clone();
        let rw: Rewrite<LS, ()> = RewriteT {
            searcher: Box::new(move |eg: &EGraph<LS, ()>| ematch_all(eg, &l)),
            applier: Box::new(move |substs: Vec<Subst>, eg: &mut EGraph<LS, ()>| {
                for sb in substs {
                    eg.union_instantiations(&l2, &r, &sb, Some("perm".to_string()));
                }
            }),
        }
        .into();
        let before = fingerprint(&mut s);
        let res = match catch_op(|| apply_rewrites(&mut s.eg, &[rw])) {
            Ok(r) => r,
            Err(_) => {
                out.discarded = Some("panic".into());
                return out;
            }
        };
        let after = fingerprint(&mut s);
        out.bump("apply_rewrites_calls");
        if before != after {
            changed_any = true;
            out.bump("symmetry_growth_steps");
        }
        if !res && before != after {
            out.violations.push(viol("C15", "false_means_unchanged", format!("apply_rewrites returned false for the rule {leaf} => p{k}{image:?} in call {it}, but the fingerprint changed: {before} -> {after}"), it));
            return out;
        }
    }
    super::matching::finish_counters(&mut out, run);
    out.states.push(state_hash(&s.eg));
    out.bump("stop:symmetry-loop");
    out.log_hash = crate::rng::hash_str(&fingerprint(&mut s));
    out.nontrivial = changed_any;
    out
}

// =============================================================================================
// C15: saturation and stop reasons
// =============================================================================================

pub struct StopCheck;

impl Check for StopCheck {
    fn id(&self) -> &'static str {
        "C15"
    }
    fn gen(&self, seed: u64, tier: Tier) -> Run {
        let mut run = gen_rw_run("C15", seed, tier);
        // keep only the start terms; the runner drives the iterations
        let rules: Vec<i64> = run.ops.iter().filter(|o| o.name == "rewrite").flat_map(|o| o.i.clone()).take(6).collect();
        run.ops.retain(|o| o.name == "add");
        run.ops.truncate(2);
        let mut r = Op::new("rules");
        for i in rules {
            r = r.i(i);
        }
        run.ops.push(r);
        let mut w = Rng::stream(seed, "runner");
        // 0 Runner, 1 run_eqsat, 2 apply_rewrites loop, 3 symmetry growth on a multi-slot leaf
        run.set("driver", w.weighted(&[4, 3, 3, 2]) as i64);
        if run.get("driver") == 3 {
            let mut o = Op::new("perms");
            for _ in 0..w.range(2, 5) {
                o = o.i(w.below(24) as i64);
            }
            run.ops.push(o);
            run.set("leaf_slots", *w.pick(&[3, 3, 4]));
            run.set("parents", w.below(3) as i64);
        }
        let two_step_fold = w.chance(1, 4);
        if two_step_fold {
            // a start term that grows in the first iteration and folds in the second: a redex that
            // only appears after the first rewrite (neg (add (neg y) 0)) -> (neg (neg y)) -> y makes two
            // copies of a context congruent one iteration after the commutativity rules added nodes
            let y = Tm::leaf("var", vec![0]);
            let n1 = |a: Tm| Tm::node("neg", vec![], vec![(vec![], a)]);
            let n2 = |name: &str, a: Tm, b: Tm| Tm::node(name, vec![], vec![(vec![], a), (vec![], b)]);
            let hidden = n1(n2("add", n1(y.clone()), Tm::pay("num", 0)));
            let mut binder = 700;
            let ctx = |x: Tm, w: &mut Rng, binder: &mut S| {
                let mut t = x;
                for _ in 0..w.range(1, 3) {
                    let other = random_la(w, &[1], 1, binder);
                    t = if w.chance(1, 2) { n2("mul", t, other) } else { n2("add", other, t) };
                }
                t
            };
            let mut w2 = Rng::stream(seed, "fold-context");
            let mut w3 = Rng::stream(seed, "fold-context");
            let mut b2 = binder;
            let a = ctx(hidden, &mut w2, &mut binder);
            let b = ctx(y, &mut w3, &mut b2);
            run.ops.retain(|o| o.name != "add" && o.name != "rules");
            run.ops.insert(0, Op::new("add").t(n2(if w.chance(1, 2) { "add" } else { "mul" }, a, b)));
            let pool = rule_pool(run.get("p") as u32);
            let idx = |n: &str| pool.iter().position(|r| r.name == n).unwrap() as i64;
            let mut r = Op::new("rules").i(idx("add-zero")).i(idx("neg-neg"));
            for n in ["add-comm", "mul-comm", "distr", "add-assoc"] {
                if w.chance(1, 2) {
                    r = r.i(idx(n));
                }
            }
            run.ops.push(r);
        }
        run.set("iter_limit", *w.pick(&[0, 1, 2, 3, 5, 8]));
        run.set("node_limit", *w.pick(&[0, 5, 20, 60, 200, 100000]));
        if w.chance(1, 2) {
            // a limit in the range of the sizes these runs actually reach: the node count is not
            // monotone (unions fold congruent nodes), so it can cross the limit in both directions
            run.set("node_limit", w.range(8, 70) as i64);
        }
        if w.chance(1, 3) {
            // growth rules next to collapsing ones
            let pool = rule_pool(run.get("p") as u32);
            let idx = |n: &str| pool.iter().position(|r| r.name == n).unwrap() as i64;
            let grow = ["add-comm", "distr", "add-assoc", "mul-comm", "let-intro", "sum-linear", "add-self", "neg-def"];
            let fold = ["add-neg", "mul-zero", "add-zero", "mul-one", "neg-neg", "let-const", "sum-const", "factor"];
            let mut r = Op::new("rules");
            for _ in 0..w.range(1, 3) {
                r = r.i(idx(*w.pick(&grow[..])));
            }
            for _ in 0..w.range(1, 3) {
                r = r.i(idx(*w.pick(&fold[..])));
            }
            run.ops.retain(|o| o.name != "rules");
            run.ops.push(r);
        }
        // time limit in milliseconds of simulated time (run_eqsat: whole seconds)
        run.set("time_limit_ms", *w.pick(&[0, 1, 1000, 5000, 60000, 3_600_000]));
        // K6 clock behaviour
        run.set("clock_per_search_ms", *w.pick(&[0, 0, 1, 400, 2500, 100000]));
        run.set("clock_per_iter_ms", *w.pick(&[0, 0, 10, 900, 10000]));
        run.set("clock_auto_ns", *w.pick(&[0, 0, 1, 1000000]));
        // K9 failing hook
        run.set("hook_fail_at", *w.pick(&[-1, -1, 0, 1, 2, 4]));
        // a hook that inserts a further term (an instance of a left side of one of the rules) at a
        // seeded call: the hooks get mutable access to the e-graph, so this is within their rights
        run.set("hook_add_at", -1);
        if w.chance(1, 3) {
            let rules: Vec<i64> = run.ops.iter().find(|o| o.name == "rules").map(|o| o.i.clone()).unwrap_or_default();
            if !rules.is_empty() {
                let pool = rule_pool(run.get("p") as u32);
                let ri = rules[w.below(rules.len())].rem_euclid(pool.len() as i64) as usize;
                let mut binder = 800;
                let t = instance_of_left(&pool[ri], &mut w, &[0, 1], &mut binder);
                run.ops.push(Op::new("hookterm").t(t));
                run.set("hook_add_at", *w.pick(&[0, 1, 1, 2, 3]));
            }
        }
        run.set("modify", 0);
        // resumed runner: after the first report the caller clears the public `stop_reason` field,
        // possibly inserts a further term and / or passes other rules, and calls `run` again
        // (own streams) the same Rewrite values applied to another e-graph before the run; a hook that
        // unites the classes of the two start terms at a seeded call (hooks may change the e-graph)
        run.set("decoy_first", [0, 0, 0, 1, 2, 3, 3][Rng::stream(seed, "c15-decoy").below(7)]);
        run.set("run_again_uncleared", Rng::stream(seed, "c15-run-again").chance(1, 4) as i64);
        run.set("hook_union_at", *Rng::stream(seed, "c15-hook-union").pick(&[-1, -1, -1, 0, 1, 2]));
        if run.get("hook_union_at") >= 0 && run.get("driver") != 3 {
            let mut ur = Rng::stream(seed, "c15-union-fold");
            if ur.chance(2, 3) {
                // two start terms C[a] and C[b] with one context: when the hook unites a and b, the two
                // copies of the context collapse by congruence and the node count FALLS in that
                // iteration (after the rules may have pushed it above the node limit)
                let a = Tm::leaf("var", vec![0]);
                let b = if ur.chance(1, 2) { Tm::leaf("var", vec![1]) } else { Tm::pay("cst", 3) };
                let depth = ur.range(2, 5);
                let mut choices: Vec<(usize, u32)> = Vec::new();
                for _ in 0..depth {
                    choices.push((ur.below(4), ur.below(3) as u32));
                }
                let ctx = |hole: Tm| -> Tm {
                    let mut t = hole;
                    for (k, c) in &choices {
                        let other = Tm::pay("num", *c);
                        t = match k {
                            0 => Tm::node("add", vec![], vec![(vec![], t), (vec![], other)]),
                            1 => Tm::node("mul", vec![], vec![(vec![], other), (vec![], t)]),
                            2 => Tm::node("neg", vec![], vec![(vec![], t)]),
                            _ => Tm::node("add", vec![], vec![(vec![], other), (vec![], Tm::node("neg", vec![], vec![(vec![], t)]))]),
                        };
                    }
                    t
                };
                let rules_op: Vec<Op> = run.ops.iter().filter(|o| o.name != "add").cloned().collect();
                run.ops = vec![Op::new("add").t(ctx(a.clone())), Op::new("add").t(ctx(b.clone()))];
                run.ops.extend(rules_op);
                run.ops.push(Op::new("unionpair").t(a).t(b));
                // node limits around the size of the two contexts
                run.set("node_limit", (2 * depth as i64 + ur.range(0, 8) as i64).max(4));
                run.set("iter_limit", ur.range(2, 6) as i64);
                run.set("time_limit_ms", 1_000_000_000);
            }
        }
        // scale scenario (own stream): thousands of matches of one rule in one call, see exec_scale
        let mut sr = Rng::stream(seed, "scale");
        if sr.chance(1, 1500) {
            run.set("scale_n", 4200 + sr.below(2500) as i64);
            run.set("scale_driver", sr.below(3) as i64);
            run.set("crate_rules", 1);
        }
        let mut rr = Rng::stream(seed, "rerun");
        if rr.chance(1, 4) {
            run.set("rerun", 1 + rr.below(4) as i64);
            run.set("rerun_rule_shift", rr.below(7) as i64);
        }
        run
    }
    fn rule(&self) -> &'static str {
        "1-2 seeded LA start terms, a seeded rule subset, driven by Runner::run, run_eqsat or a bare apply_rewrites loop with seeded iteration / node / time limits (incl. 0) under a simulated clock (stalled, per-read auto step, jumps inside searchers and between iterations) and a hook that fails at a seeded iteration; oracle: truth table of the stop reason in the final state, one more application after 'saturated' changes nothing, apply_rewrites == false implies unchanged fingerprint, iteration bound, node count in the report; non-trivial = the run made at least one change and stopped for a reason other than saturation in the first iteration; distinct = distinct canonical key"
    }
    fn fault_kinds(&self) -> &'static [&'static str] {
        &["K1_hash_order", "K2_fresh_stride", "K4_buggify", "K6_clock_jump_in_searcher", "K6_clock_jump_between_iterations", "K6_clock_auto_step", "K6_clock_crossed_limit", "K9_hook_failed"]
    }
    fn budget(&self, tier: Tier) -> u64 {
        match tier {
            Tier::Quick => 60_000,
            Tier::Thorough => 100_000,
        }
    }
    fn exec(&self, run: &Run) -> Outcome {
        if run.get("scale_n") > 0 {
            return exec_scale(run);
        }
        if run.get("driver").rem_euclid(4) == 3 {
            return exec_symmetry_growth(run);
        }
        let mut out = Outcome::default();
        seam::apply(&run.knobs());
        let ms = 1_000_000u64;
        seam::clock_set(1_000 * ms); // an arbitrary epoch
        seam::clock_auto_step(run.get("clock_auto_ns").max(0) as u64);
        let mut s: Sess<LA, SimAn> = Sess::new(new_la_egraph(run), run.get("naming") as u32);
        for op in run.ops.iter().filter(|o| o.name == "add") {
            if catch_op(|| s.add_term(&op.t[0], false)).is_err() {
                out.discarded = Some("panic".into());
                return out;
            }
        }
        let idxs: Vec<i64> = run.ops.iter().find(|o| o.name == "rules").map(|o| o.i.clone()).unwrap_or_default();
        if idxs.is_empty() {
            return out;
        }
        let p = run.get("p").clamp(2, 11) as u32;
        let pool = rule_pool(p);
        let per_search = run.get("clock_per_search_ms").max(0) as u64 * ms;
        let per_iter = run.get("clock_per_iter_ms").max(0) as u64 * ms;
        let searches = Rc::new(RefCell::new(0u64));
        let mk_rules_shift = |nm: &mut Naming, searches: Rc<RefCell<u64>>, shift: i64| -> Vec<Rewrite<LA, SimAn>> {
            idxs.iter()
                .map(|i| {
                    let rule = &pool[(i + shift).rem_euclid(pool.len() as i64) as usize];
                    let sc = searches.clone();
                    let on_search: Option<Rc<dyn Fn()>> = Some(Rc::new(move || {
                        *sc.borrow_mut() += 1;
                        if per_search > 0 {
                            seam::clock_advance_nanos(per_search);
                        }
                    }));
                    make_rewrite::<SimAn>(rule, nm, None, on_search)
                })
                .collect()
        };
        let mk_rules = |nm: &mut Naming, searches: Rc<RefCell<u64>>| -> Vec<Rewrite<LA, SimAn>> { mk_rules_shift(nm, searches, 0) };
        let iter_limit = run.get("iter_limit").max(0) as usize;
        let node_limit = run.get("node_limit").max(0) as usize;
        let time_limit_ms = run.get("time_limit_ms").max(0) as u64;
        let hook_union_at = run.get("hook_union_at");
        let union_pair: Option<(AppliedId, AppliedId)> = {
            let mut roots: Vec<AppliedId> = run.ops.iter().filter(|o| o.name == "add").filter_map(|o| s.by_exact.get(&o.t[0]).map(|i| s.tracked[*i].h.clone())).collect();
            if let Some(o) = run.ops.iter().find(|o| o.name == "unionpair" && o.t.len() == 2) {
                let hs: Vec<AppliedId> = o.t.iter().filter_map(|t| s.by_exact.get(t).map(|i| s.tracked[*i].h.clone())).collect();
                if hs.len() == 2 {
                    roots = hs;
                }
            }
            if roots.len() >= 2 && hook_union_at >= 0 {
                Some((roots[0].clone(), roots[1].clone()))
            } else {
                None
            }
        };
        let hook_fail_at = run.get("hook_fail_at");
        let hook_add_at = run.get("hook_add_at");
        let hook_re: Option<RecExpr<LA>> = run.ops.iter().find(|o| o.name == "hookterm").map(|o| to_re::<LA>(&o.t[0], &mut s.nm));
        let driver = run.get("driver").rem_euclid(4);
        let fp0 = fingerprint(&mut s);
        let t_start = seam::clock_now();

        let v = |clause: &str, detail: String| viol("C15", clause, detail, 0);
        let mut changed_any = false;
        let mut reason_txt = String::new();

        match driver {
            2 => {
                // bare apply_rewrites: false => nothing observable changed
                let rules = mk_rules(&mut s.nm, searches.clone());
                if catch_op(|| warm_up_on_decoy(run, &rules)).is_err() {
                    out.discarded = Some("panic".into());
                    return out;
                }
                for it in 0..iter_limit.min(4) + 1 {
                    let before = fingerprint(&mut s);
                    let r = match catch_op(|| apply_rewrites(&mut s.eg, &rules)) {
                        Ok(r) => r,
                        Err(_) => {
                            out.discarded = Some("panic".into());
                            return out;
                        }
                    };
                    let after = fingerprint(&mut s);
                    out.bump("apply_rewrites_calls");
                    if !r && before != after {
                        out.violations.push(v("false_means_unchanged", format!("apply_rewrites returned false in iteration {it} but the fingerprint changed: {before} -> {after}")));
                        return out;
                    }
                    if r {
                        changed_any = true;
                    }
                    if s.eg.total_number_of_nodes() > 400 {
                        break;
                    }
                }
                reason_txt = "loop".into();
            }
            1 => {
                let rules = mk_rules(&mut s.nm, searches.clone());
                if catch_op(|| warm_up_on_decoy(run, &rules)).is_err() {
                    out.discarded = Some("panic".into());
                    return out;
                }
                let eg = std::mem::replace(&mut s.eg, new_la_egraph(run));
                let mut eg = eg;
                let hook_calls = Rc::new(RefCell::new(0i64));
                let hc = hook_calls.clone();
                let time_limit_s = (time_limit_ms / 1000) as usize;
                let union_pair_e = union_pair.clone();
                let rep = catch_op(|| {
                    let hook_re = hook_re.clone();
                    run_eqsat(&mut eg, rules, iter_limit, time_limit_s, move |eg| {
                        let n = *hc.borrow();
                        *hc.borrow_mut() += 1;
                        if per_iter > 0 {
                            seam::clock_advance_nanos(per_iter);
                        }
                        if n == hook_add_at {
                            if let Some(re) = &hook_re {
                                eg.add_expr(re.clone());
                            }
                        }
                        if n == hook_union_at {
                            if let Some((a, b)) = &union_pair_e {
                                eg.union(a, b);
                            }
                        }
                        if n == hook_fail_at {
                            return Err(format!("hook-failed-{n}"));
                        }
                        Ok(())
                    })
                });
                s.eg = eg;
                let rep = match rep {
                    Ok(r) => r,
                    Err(_) => {
                        out.discarded = Some("panic".into());
                        return out;
                    }
                };
                let elapsed_s = (seam::clock_now() - t_start) / 1_000_000_000;
                reason_txt = format!("{:?}", rep.stop_reason);
                let nodes = s.eg.total_number_of_nodes();
                if rep.egraph_nodes != nodes {
                    out.violations.push(v("report_node_count", format!("report says {} nodes, e-graph has {nodes}", rep.egraph_nodes)));
                    return out;
                }
                if rep.iterations > iter_limit + 2 {
                    out.violations.push(v("iteration_bound", format!("{} iterations with iter_limit {iter_limit}", rep.iterations)));
                    return out;
                }
                match &rep.stop_reason {
                    StopReason::Saturated => {}
                    StopReason::IterationLimit => {
                        if rep.iterations < iter_limit {
                            out.violations.push(v("stop_reason_true", format!("IterationLimit after {} iterations, limit {iter_limit}", rep.iterations)));
                            return out;
                        }
                    }
                    StopReason::TimeLimit => {
                        if (elapsed_s as usize) < time_limit_s {
                            out.violations.push(v("stop_reason_true", format!("TimeLimit but only {elapsed_s}s of simulated time elapsed, limit {time_limit_s}s")));
                            return out;
                        }
                    }
                    StopReason::NodeLimit => {
                        out.violations.push(v("stop_reason_true", "run_eqsat has no node limit but reported NodeLimit".into()));
                        return out;
                    }
                    StopReason::Other(e) => {
                        let calls = *hook_calls.borrow();
                        if hook_fail_at < 0 || *e != format!("hook-failed-{hook_fail_at}") || calls != hook_fail_at + 1 {
                            out.violations.push(v("stop_reason_true", format!("Other({e}) but the hook was configured to fail at call {hook_fail_at} and was called {calls} times")));
                            return out;
                        }
                        out.bump("K9_hook_failed");
                    }
                }
                changed_any = fingerprint(&mut s) != fp0;
                if matches!(rep.stop_reason, StopReason::Saturated) {
                    crate::rules::VIA_CRATE.with(|c| c.set(false));
                    let rules2 = mk_rules(&mut s.nm, Rc::new(RefCell::new(0)));
                    let before = fingerprint(&mut s);
                    if catch_op(|| apply_rewrites(&mut s.eg, &rules2)).is_err() {
                        out.discarded = Some("panic".into());
                        return out;
                    }
                    let after = fingerprint(&mut s);
                    if before != after {
                        out.violations.push(v("saturated_is_fixpoint", format!("stopped as Saturated but one more application of every rule changed the fingerprint: {before} -> {after}")));
                        return out;
                    }
                    out.bump("saturation_rechecked");
                }
            }
            _ => {
                let rules = mk_rules(&mut s.nm, searches.clone());
                if catch_op(|| warm_up_on_decoy(run, &rules)).is_err() {
                    out.discarded = Some("panic".into());
                    return out;
                }
                let eg = std::mem::replace(&mut s.eg, new_la_egraph(run));
                let hook_calls = Rc::new(RefCell::new(0i64));
                let hc = hook_calls.clone();
                let union_pair_r = union_pair.clone();
                let mut runner: Runner<LA, SimAn, (), String> = Runner::new(SimAn { p, modify: false })
                    .with_egraph(eg)
                    .with_iter_limit(iter_limit)
                    .with_node_limit(node_limit)
                    .with_time_limit(std::time::Duration::from_millis(time_limit_ms))
                    .with_hook(move |r: &mut Runner<LA, SimAn, (), String>| {
                        let n = *hc.borrow();
                        *hc.borrow_mut() += 1;
                        if per_iter > 0 {
                            seam::clock_advance_nanos(per_iter);
                        }
                        if n == hook_add_at {
                            if let Some(re) = &hook_re {
                                r.egraph.add_expr(re.clone());
                            }
                        }
                        if n == hook_union_at {
                            if let Some((a, b)) = &union_pair_r {
                                r.egraph.union(a, b);
                            }
                        }
                        if n == hook_fail_at {
                            return Err(format!("hook-failed-{n}"));
                        }
                        Ok(())
                    });
                let rerun = run.get("rerun");
                let mut rules = rules;
                let mut round = 0;
                let mut shift = 0;
                let mut prev_iters = 0usize;
                loop {
                round += 1;
                if round == 2 {
                    // resume: the caller clears the stop reason (a public field documented as "None if it
                    // hasn't stopped yet"), may insert a term and may pass other rules
                    runner.stop_reason = None;
                    if rerun & 1 != 0 {
                        if let Some(re) = run.ops.iter().find(|o| o.name == "hookterm").map(|o| to_re::<LA>(&o.t[0], &mut s.nm)) {
                            if catch_op(|| runner.egraph.add_expr(re)).is_err() {
                                out.discarded = Some("panic".into());
                                return out;
                            }
                        }
                    }
                    if rerun & 2 != 0 {
                        shift = run.get("rerun_rule_shift");
                        rules = mk_rules_shift(&mut s.nm, searches.clone(), shift);
                    }
                    out.bump("runner_resumed");
                }
                let rep = catch_op(|| runner.run(&rules));
                // look at the e-graph (it is handed back to the runner for a resumed run)
                s.eg = std::mem::replace(&mut runner.egraph, new_la_egraph(run));
                let rep = match rep {
                    Ok(r) => r,
                    Err(_) => {
                        out.discarded = Some("panic".into());
                        return out;
                    }
                };
                let elapsed_ns = seam::clock_now() - t_start;
                reason_txt = format!("{:?}", rep.stop_reason);
                if runner.iterations.windows(2).any(|w| w[1].num_nodes < w[0].num_nodes) {
                    out.bump("node_count_shrank_between_iterations");
                }
                let nodes = s.eg.total_number_of_nodes();
                if rep.egraph_nodes != nodes {
                    out.violations.push(v("report_node_count", format!("report says {} nodes, e-graph has {nodes}", rep.egraph_nodes)));
                    return out;
                }
                // a run that starts after P completed iterations ends after max(P + 1, limit + 2)
                if rep.iterations > (iter_limit + 2).max(prev_iters + 1) {
                    out.violations.push(v("iteration_bound", format!("{} iterations with iter_limit {iter_limit} ({prev_iters} before this call)", rep.iterations)));
                    return out;
                }
                prev_iters = rep.iterations;
                match &rep.stop_reason {
                    StopReason::Saturated => {}
                    StopReason::IterationLimit => {
                        // the limit is checked against the number of completed iterations before
                        // the current one: it must really be exceeded
                        if rep.iterations < 1 || rep.iterations - 1 <= iter_limit {
                            out.violations.push(v("stop_reason_true", format!("IterationLimit after {} iterations, limit {iter_limit} not exceeded", rep.iterations)));
                            return out;
                        }
                    }
                    StopReason::NodeLimit => {
                        if nodes <= node_limit {
                            out.violations.push(v("stop_reason_true", format!("NodeLimit with {nodes} nodes, limit {node_limit} not exceeded")));
                            return out;
                        }
                    }
                    StopReason::TimeLimit => {
                        if elapsed_ns <= time_limit_ms * ms {
                            out.violations.push(v("stop_reason_true", format!("TimeLimit but only {elapsed_ns}ns of simulated time elapsed, limit {time_limit_ms}ms not exceeded")));
                            return out;
                        }
                        out.bump("K6_clock_crossed_limit");
                    }
                    StopReason::Other(e) => {
                        let calls = *hook_calls.borrow();
                        if hook_fail_at < 0 || *e != format!("hook-failed-{hook_fail_at}") || calls != hook_fail_at + 1 {
                            out.violations.push(v("stop_reason_true", format!("Other({e}) but the hook was configured to fail at call {hook_fail_at} and was called {calls} times")));
                            return out;
                        }
                        out.bump("K9_hook_failed");
                    }
                }
                changed_any = fingerprint(&mut s) != fp0;
                if matches!(rep.stop_reason, StopReason::Saturated) {
                    crate::rules::VIA_CRATE.with(|c| c.set(false));
                    let rules2 = mk_rules_shift(&mut s.nm, Rc::new(RefCell::new(0)), shift);
                    crate::rules::VIA_CRATE.with(|c| c.set(run.get("crate_rules") != 0));
                    let before = fingerprint(&mut s);
                    if catch_op(|| apply_rewrites(&mut s.eg, &rules2)).is_err() {
                        out.discarded = Some("panic".into());
                        return out;
                    }
                    let after = fingerprint(&mut s);
                    if before != after {
                        out.violations.push(v("saturated_is_fixpoint", format!("stopped as Saturated but one more application of every rule changed the fingerprint: {before} -> {after}")));
                        return out;
                    }
                    out.bump("saturation_rechecked");
                }
                if round == 1 && rerun == 0 && run.get("run_again_uncleared") != 0 {
                    // the caller changes the e-graph through the public field and calls `run` once more WITHOUT
                    // clearing the stop reason: the runner does nothing (its stop reason stands, 12.9), but the
                    // report it hands out still has to describe the e-graph as it is now
                    let extra = to_re::<LA>(&Tm::node("neg", vec![], vec![(vec![], Tm::node("neg", vec![], vec![(vec![], Tm::pay("cst", 77))]))]), &mut s.nm);
                    let eg = std::mem::replace(&mut s.eg, new_la_egraph(run));
                    runner.egraph = eg;
                    let r2 = catch_op(|| {
                        runner.egraph.add_expr(extra);
                        runner.run(&rules)
                    });
                    s.eg = std::mem::replace(&mut runner.egraph, new_la_egraph(run));
                    match r2 {
                        Err(_) => {
                            out.discarded = Some("panic".into());
                            return out;
                        }
                        Ok(rep2) => {
                            out.bump("run_again_without_clearing");
                            let nodes2 = s.eg.total_number_of_nodes();
                            if rep2.egraph_nodes != nodes2 {
                                out.violations.push(v("report_node_count", format!("second call of run (stop reason left as it was, a term inserted in between): report says {} nodes, e-graph has {nodes2}", rep2.egraph_nodes)));
                                return out;
                            }
                        }
                    }
                }
                if rerun == 0 || round == 2 || s.eg.total_number_of_nodes() > 400 {
                    break;
                }
                runner.egraph = std::mem::replace(&mut s.eg, new_la_egraph(run));
                }
            }
        }
        out.ops_executed = *searches.borrow();
        if per_search > 0 && *searches.borrow() > 0 {
            out.bump("K6_clock_jump_in_searcher");
        }
        if per_iter > 0 {
            out.bump("K6_clock_jump_between_iterations");
        }
        if run.get("clock_auto_ns") > 0 {
            out.bump("K6_clock_auto_step");
        }
        out.count("clock_reads", seam::clock_reads());
        out.count("simulated_ms", (seam::clock_now() - t_start) / ms);
        out.bump(&format!("stop:{}", reason_txt.split('(').next().unwrap_or("")));
        super::matching::finish_counters(&mut out, run);
        out.states.push(state_hash(&s.eg));
        out.log_hash = crate::rng::hash_str(&format!("{reason_txt}/{}", fingerprint(&mut s)));
        out.nontrivial = out.discarded.is_none() && changed_any && !reason_txt.is_empty();
        out
    }
}


/// C15 at scale: a balanced sum of several thousand distinct constants and the commutativity rule,
/// i.e. thousands of matches of one rule in one call (every other scenario stays below a few hundred).
/// The rule is built by the crate's `Rewrite::new` (or by the simulator, per `crate_rules`). When the
/// driver reports saturation, the oracle does not ask the matcher: for every e-node `add(x, y)` of every
/// class, `add(y, x)` must be represented in the same class.
fn exec_scale(run: &Run) -> Outcome {
    let mut out = Outcome::default();
    seam::apply(&run.knobs());
    seam::clock_set(1_000_000_000);
    let n = run.get("scale_n").clamp(2, 20_000) as usize;
    let mut s: Sess<LA, SimAn> = Sess::new(new_la_egraph(run), run.get("naming") as u32);
    fn build(lo: usize, hi: usize) -> Tm {
        if hi - lo == 1 {
            return Tm::pay("cst", lo as u32);
        }
        let mid = (lo + hi) / 2;
        Tm::node("add", vec![], vec![(vec![], build(lo, mid)), (vec![], build(mid, hi))])
    }
    let t = build(0, n);
    let re = to_re::<LA>(&t, &mut s.nm);
    let root = match catch_op(|| s.eg.add_expr(re)) {
        Ok(r) => r,
        Err(_) => {
            out.discarded = Some("panic".into());
            return out;
        }
    };
    let pool = rule_pool(run.get("p").clamp(2, 11) as u32);
    let comm = pool.iter().find(|r| r.name == "add-comm").unwrap();
    let rules: Vec<Rewrite<LA, SimAn>> = vec![make_rewrite::<SimAn>(comm, &mut s.nm, None, None)];
    let v = |clause: &str, detail: String| viol("C15", clause, detail, 0);
    let mut claimed_saturated = false;
    match run.get("scale_driver").rem_euclid(3) {
        0 => {
            let eg = std::mem::replace(&mut s.eg, new_la_egraph(run));
            let mut runner: Runner<LA, SimAn, (), String> = Runner::new(SimAn { p: 3, modify: false })
                .with_egraph(eg)
                .with_iter_limit(6)
                .with_node_limit(10_000_000)
                .with_time_limit(std::time::Duration::from_secs(1_000_000));
            let rep = catch_op(|| runner.run(&rules));
            s.eg = std::mem::replace(&mut runner.egraph, new_la_egraph(run));
            match rep {
                Ok(rep) => {
                    claimed_saturated = matches!(rep.stop_reason, StopReason::Saturated);
                    if rep.egraph_nodes != s.eg.total_number_of_nodes() {
                        out.violations.push(v("report_node_count", format!("report says {} nodes, e-graph has {}", rep.egraph_nodes, s.eg.total_number_of_nodes())));
                        return out;
                    }
                }
                Err(_) => {
                    out.discarded = Some("panic".into());
                    return out;
                }
            }
        }
        1 => {
            let mut eg = std::mem::replace(&mut s.eg, new_la_egraph(run));
            let rep = catch_op(|| run_eqsat(&mut eg, rules, 6, 1_000_000, |_| Ok::<(), String>(())));
            s.eg = eg;
            match rep {
                Ok(rep) => claimed_saturated = matches!(rep.stop_reason, StopReason::Saturated),
                Err(_) => {
                    out.discarded = Some("panic".into());
                    return out;
                }
            }
        }
        _ => {
            for _ in 0..4 {
                match catch_op(|| apply_rewrites(&mut s.eg, &rules)) {
                    Ok(false) => {
                        claimed_saturated = true;
                        break;
                    }
                    Ok(true) => {}
                    Err(_) => {
                        out.discarded = Some("panic".into());
                        return out;
                    }
                }
            }
        }
    }
    out.ops_executed = 1;
    out.bump("scale_runs");
    if claimed_saturated {
        // independent of the matcher: every add(x, y) has its mirror image in the same class
        let r = catch_op(|| -> Option<Violation> {
            let mut adds = 0u64;
            for id in s.eg.ids() {
                let ident = s.eg.mk_identity_applied_id(id);
                for nd in s.eg.enodes(id) {
                    if let LA::Add(a, b) = &nd {
                        adds += 1;
                        let mirror = LA::Add(b.clone(), a.clone());
                        match s.eg.lookup(&mirror) {
                            None => return Some(v("saturated_is_fixpoint", format!("no change / Saturated was reported with {n} summands, but {mirror:?} is not represented although {nd:?} is (the commutativity rule has an unapplied match)"))),
                            Some(h) => {
                                if !s.eg.eq(&h, &ident) {
                                    return Some(v("saturated_is_fixpoint", format!("no change / Saturated was reported with {n} summands, but {mirror:?} and {nd:?} are in different classes")));
                                }
                            }
                        }
                    }
                }
            }
            if adds < (n as u64 - 1) {
                return Some(v("saturated_is_fixpoint", format!("only {adds} add e-nodes for {n} summands")));
            }
            None
        });
        match r {
            Ok(Some(vi)) => {
                out.violations.push(vi);
                return out;
            }
            Ok(None) => out.bump("scale_saturation_checked"),
            Err(_) => {
                out.discarded = Some("panic_in_query".into());
                return out;
            }
        }
    }
    let _ = root;
    super::matching::finish_counters(&mut out, run);
    out.log_hash = crate::rng::hash_str(&format!("scale/{claimed_saturated}/{}", s.eg.total_number_of_nodes()));
    out.nontrivial = claimed_saturated;
    out
}


/// the whole LA history in the current (fresh) thread, rendered operation by operation
fn la_transcript(run: &Run) -> (Vec<String>, u64) {
    seam::apply(&run.knobs());
    CONST_CONFLICT.with(|c| c.set(None));
    let mut s: Sess<LA, SimAn> = Sess::new(new_la_egraph(run), run.get("naming") as u32);
    let pb = Rc::new(RefCell::new(200u64));
    let budget = effective_budget(run);
    let mut out: Vec<String> = Vec::new();
    let mut changes = 0u64;
    for (k, op) in run.ops.iter().enumerate() {
        s.cur_op = k;
        if s.eg.total_number_of_nodes() > budget && (op.name == "rewrite" || op.name == "runner") {
            continue;
        }
        let before = s.eg.progress();
        match catch_op(|| exec_la_op(&mut s, op, run, &pb)) {
            Err(p) => {
                if p.msg.starts_with("harness:") || p.is_harness() {
                    panic!("harness panic: {} at {}", p.msg, p.loc);
                }
                out.push(format!("{k} {} PANIC {}", op.name, p.norm_msg()));
                break;
            }
            Ok(r) => out.push(format!("{k} {} -> {r:?}", op.name)),
        }
        if before != s.eg.progress() && k > 0 {
            changes += 1;
        }
        let line = catch_op(|| {
            let p = s.eg.progress();
            let mut t = format!("  progress {} {} {} {} nodes {}", p.number_of_classes, p.number_of_live_classes, p.sum_of_slots, p.sum_of_symmetries, s.eg.total_number_of_nodes());
            for id in s.eg.ids() {
                t.push_str(&format!("\n  {id:?} slots {:?} data {:?} nodes", s.eg.slots(id), s.eg.analysis_data(id)));
                for n in s.eg.enodes(id) {
                    t.push_str(&format!(" {n:?}"));
                }
            }
            for tr in s.tracked.iter().take(8) {
                t.push_str(&format!("\n  handle {:?} -> {:?}", tr.h, s.eg.find_applied_id(&tr.h)));
            }
            t
        });
        match line {
            Ok(t) => out.push(t),
            Err(p) => {
                out.push(format!("{k} PANIC in listing {}", p.norm_msg()));
                break;
            }
        }
    }
    (out, changes)
}

/// C20 for the analysis / modify-hook paths: the same LA history in two fresh threads
fn exec_c20a(run: &Run) -> Outcome {
    let mut out = Outcome::default();
    let (r1, r2) = (run.clone(), run.clone());
    let (t1, changes) = crate::exec::in_fresh_thread(move || la_transcript(&r1));
    let (t2, _) = crate::exec::in_fresh_thread(move || la_transcript(&r2));
    out.ops_executed = run.ops.len() as u64 * 2;
    if t1.iter().any(|l| l.contains("PANIC")) {
        out.discarded = Some("panic".into());
    } else if t1 != t2 {
        let k = t1.iter().zip(t2.iter()).position(|(a, b)| a != b).unwrap_or(t1.len().min(t2.len()));
        let a = t1.get(k).cloned().unwrap_or_default();
        let b = t2.get(k).cloned().unwrap_or_default();
        // first differing position inside the line
        let pos = a.bytes().zip(b.bytes()).position(|(x, y)| x != y).unwrap_or(0);
        let from = pos.saturating_sub(60);
        let cut = |s: &str| -> String { s.chars().skip(from).take(200).collect() };
        out.violations.push(viol("C20", "same_in_fresh_thread", format!("transcript line {k} differs between two executions of the same history in fresh threads: ...{} vs ...{}", cut(&a), cut(&b)), 0));
    }
    out.bump("fresh_thread_replays");
    super::matching::finish_counters(&mut out, run);
    out.log_hash = crate::rng::hash_str(&t1.join("\n"));
    out.nontrivial = out.discarded.is_none() && changes > 0;
    out
}
