//! C09: insertion is canonical; lookup agrees with add; lookup never modifies the e-graph.

use super::sesscc::{gen_sess_run, pool_size, state_hash, CcCtx};
use super::{Check, Tier};
use crate::exec::seam;
use crate::langs::*;
use crate::rng::Rng;
use crate::run::*;
use crate::sess::*;
use crate::tm::*;
use slotted_egraphs::*;
use std::collections::BTreeMap;

pub struct CanonCheck;

fn viol(clause: &str, detail: String, at: usize) -> Violation {
    Violation { property: "C09".into(), clause: clause.into(), kind: "mismatch".into(), sig: clause.into(), triggers: vec![], detail, at_op: at }
}

#[derive(Clone, Debug, PartialEq, Eq)]
enum Kind {
    Present,
    Absent,
    Unknown,
}

fn fingerprint<L: SimLang, N: Analysis<L>>(eg: &EGraph<L, N>) -> (u64, usize, usize, usize, usize, usize) {
    let p = eg.progress();
    (state_hash(eg), p.number_of_classes, p.number_of_live_classes, p.sum_of_slots, p.sum_of_symmetries, eg.total_number_of_nodes())
}

/// replaces the first kid (not under a binder) for which `f` yields a replacement
fn replace_kid(t: &Tm, f: &mut dyn FnMut(&Tm) -> Option<Tm>) -> Option<Tm> {
    for (i, k) in t.kids.iter().enumerate() {
        if k.binders.is_empty() {
            if let Some(r) = f(&k.t) {
                let mut c = t.clone();
                c.kids[i].t = r;
                return Some(c);
            }
        }
    }
    for (i, k) in t.kids.iter().enumerate() {
        if k.binders.is_empty() {
            if let Some(r) = replace_kid(&k.t, f) {
                let mut c = t.clone();
                c.kids[i].t = r;
                return Some(c);
            }
        }
    }
    None
}

impl Check for CanonCheck {
    fn id(&self) -> &'static str {
        "C09"
    }
    fn gen(&self, seed: u64, tier: Tier) -> Run {
        let mut run = gen_sess_run("C09", seed, tier, true);
        let mut f = Rng::stream(seed, "candidates");
        run.set("cand_seed", (f.next() >> 1) as i64);
        // (own stream) parents over a symmetric leaf, judged by brute-force subgroup closure instead
        // of M_cc: nodes with up to 24^3 group-compatible variants
        let mut sp = Rng::stream(seed, "sym-parent");
        if sp.chance(1, 40) {
            let k = if sp.chance(1, 2) { 4 } else { 3 };
            let perm = |sp: &mut Rng| -> Vec<i64> {
                let mut v: Vec<i64> = (0..k as i64).collect();
                sp.shuffle(&mut v);
                v
            };
            let mut ops: Vec<Op> = Vec::new();
            let ngen = sp.range(1, 3);
            let mut gens: Vec<Vec<i64>> = Vec::new();
            for _ in 0..ngen {
                let g = if k == 4 && sp.chance(1, 3) { vec![1, 2, 3, 0] } else if sp.chance(1, 3) { let mut v: Vec<i64> = (0..k as i64).collect(); v.swap(0, 1); v } else { perm(&mut sp) };
                gens.push(g.clone());
                let mut o = Op::new("gen");
                for x in g {
                    o = o.i(x);
                }
                ops.push(o);
            }
            let arity = sp.range(2, 3);
            let mut first: Vec<Vec<i64>> = Vec::new();
            for q in 0..4 {
                let mut o = Op::new(if q == 0 { "parent" } else { "candidate" });
                for c in 0..arity {
                    let mut p = perm(&mut sp);
                    if q > 0 && sp.chance(1, 2) {
                        // the first parent's child composed with a product of generators: a present one
                        let mut h: Vec<i64> = (0..k as i64).collect();
                        for _ in 0..sp.range(0, 3) {
                            let g = sp.pick(&gens).clone();
                            h = (0..k).map(|i| h[g[i] as usize]).collect();
                        }
                        p = (0..k).map(|i| first[c][h[i] as usize]).collect();
                    }
                    if q == 0 {
                        first.push(p.clone());
                    }
                    for x in p {
                        o = o.i(x);
                    }
                }
                ops.push(o);
            }
            if sp.chance(1, 2) {
                // the parent exists before the symmetries are known
                let pi = ops.iter().position(|o| o.name == "parent").unwrap();
                let o = ops.remove(pi);
                ops.insert(0, o);
            }
            run.ops = ops;
            run.set("sym_parent", k as i64);
            run.set("sym_arity", arity as i64);
        }
        run
    }
    fn rule(&self) -> &'static str {
        "seeded sess histories (as C01) followed by candidate terms: known-present (alpha-renamed, injectively renamed, a subterm replaced by an M_cc-equal instance), known-absent (contain a never inserted constant) and unknown (random); for each: lookup_rec_expr, then add_expr, class-count delta, agreement of both results with the expected invocation, returned slot set vs. free slots minus M_cc-redundant slots, fingerprint before/after lookup; non-trivial = at least one union changed the e-graph and at least one present and one absent candidate were evaluated; distinct = distinct canonical key"
    }
    fn fault_kinds(&self) -> &'static [&'static str] {
        &["K1_hash_order", "K2_fresh_stride", "K3_probes", "K4_buggify", "K5_client_schedule"]
    }
    fn budget(&self, tier: Tier) -> u64 {
        match tier {
            Tier::Quick => 80_000,
            Tier::Thorough => 300_000,
        }
    }

    fn exec(&self, run: &Run) -> Outcome {
        if run.get("sym_parent") > 0 {
            return exec_sym_parent(run);
        }
        // a third of the runs carry the simulator's analysis (min size / depth / height): worklist
        // entries then come in two kinds (analysis-only and full) and data changes re-queue parents
        if run.get("analysis") != 0 {
            self.exec_with(run, EGraph::new(crate::analysis::SimAn { p: 3, modify: run.get("analysis") == 2 }))
        } else {
            self.exec_with(run, EGraph::new(()))
        }
    }
}

impl CanonCheck {
    fn exec_with<N: Analysis<LS> + Clone>(&self, run: &Run, eg: EGraph<LS, N>) -> Outcome {
        let mut out = Outcome::default();
        seam::apply(&run.knobs());
        let mut s: Sess<LS, N> = Sess::new(eg, run.get("naming") as u32);
        if run.get("companion") != 0 {
            s.enable_companion();
        }
        let n = pool_size(&run.ops);
        let mut ctx = CcCtx::new(n);
        ctx.unit_schema = run.get("analysis") == 2;
        let mut any_change = false;
        for (k, op) in run.ops.iter().enumerate() {
            s.cur_op = k;
            let before = s.eg.progress();
            if catch_op(|| exec_sess_op(&mut s, op, run)).is_err() {
                out.discarded = Some("panic".into());
                return out;
            }
            out.ops_executed += 1;
            if op.name == "union" && before != s.eg.progress() {
                any_change = true;
            }
            match op.name.as_str() {
                "add" => ctx.track(&op.t[0]),
                "union" => {
                    ctx.track(&op.t[0]);
                    ctx.track(&op.t[1]);
                    ctx.assert_eq(&op.t[0], &op.t[1]);
                }
                _ => {}
            }
        }
        ctx.close();
        let alphabet = max_name(&run.ops).max(2);
        let mut crng = Rng::stream(run.get("cand_seed") as u64, "candidates");
        let nt = s.tracked.len();
        if nt == 0 {
            return out;
        }
        // node-wise candidates: an inserted composite term as ONE e-node whose children are the handles
        // recorded when the subterms were first inserted (by now possibly stale: merged away, or the class
        // lost a slot). `lookup` has to find it without changing anything, `add` has to create nothing and
        // return an invocation equal to the tracked one.
        {
            let mut order: Vec<usize> = (0..nt).filter(|i| !s.tracked[*i].tm.kids.is_empty()).collect();
            crng.clone().shuffle(&mut order);
            order.truncate(6);
            for i in order {
                let t = s.tracked[i].tm.clone();
                if !t.kids.iter().all(|k| s.by_exact.contains_key(&k.t)) {
                    continue;
                }
                let res = catch_op(|| -> Option<Violation> {
                    let mut node = LS::mk(&t, &mut s.nm);
                    let kids: Vec<AppliedId> = t.kids.iter().map(|k| s.tracked[s.by_exact[&k.t]].h.clone()).collect();
                    for (r, k) in node.applied_id_occurrences_mut().into_iter().zip(kids.into_iter()) {
                        *r = k;
                    }
                    let fp0 = fingerprint(&s.eg);
                    let looked = s.eg.lookup(&node);
                    let fp1 = fingerprint(&s.eg);
                    if fp0 != fp1 {
                        return Some(viol("lookup_modifies", format!("lookup of the e-node of {t} (old child handles) changed the fingerprint {fp0:?} -> {fp1:?}"), 0));
                    }
                    let Some(l) = looked else {
                        return Some(viol("present_not_found", format!("{t} was inserted, but lookup of its e-node {node:?} (children = the handles returned when the subterms were inserted) returned None"), 0));
                    };
                    let before = s.eg.progress().number_of_classes;
                    let added = s.eg.add(node.clone());
                    let created = s.eg.progress().number_of_classes - before;
                    if created != 0 {
                        return Some(viol("present_creates_class", format!("add of the e-node {node:?} of the inserted term {t} created {created} classes"), 0));
                    }
                    let h = s.tracked[i].h.clone();
                    if !s.eg.eq(&l, &added) || !s.eg.eq(&h, &added) {
                        return Some(viol("result_not_equal_existing", format!("e-node {node:?} of {t}: lookup gives {l:?}, add gives {added:?}, the tracked invocation is {h:?}: not all equal"), 0));
                    }
                    None
                });
                out.bump("nodewise_candidates");
                match res {
                    Err(_) => {
                        out.discarded = Some("panic_in_query".into());
                        return out;
                    }
                    Ok(Some(v)) => {
                        out.violations.push(v);
                        return out;
                    }
                    Ok(None) => {}
                }
            }
        }
        // candidates
        let mut cands: Vec<(Kind, Tm, Option<Tm>)> = Vec::new(); // (kind, candidate, term whose handle it must equal)
        let classes = ctx.cc.class_map();
        for _ in 0..8 {
            let i = crng.below(nt);
            let t = s.tracked[i].tm.clone();
            if !t.free().iter().all(|x| (*x as usize) < n) {
                continue;
            }
            match crng.below(4) {
                0 => {
                    // alpha-renamed copy: binders get other names
                    let mut fr = 200 + crng.below(50) as S;
                    let c = t.rename(&BTreeMap::new(), &mut fr);
                    cands.push((Kind::Present, c, Some(t)));
                }
                1 => {
                    // injective renaming of the free slots (within the pool)
                    let free = t.free_vec();
                    let mut names: Vec<S> = (0..n as S).collect();
                    crng.shuffle(&mut names);
                    let rho: BTreeMap<S, S> = free.iter().copied().zip(names.into_iter()).collect();
                    let mut fr = 300;
                    let c = normalise_binders(&t.rename(&rho, &mut fr), n);
                    cands.push((Kind::Present, c.clone(), Some(c)));
                }
                2 => {
                    // replace a subterm by an equal instance
                    let mut pick = crng.clone();
                    let rep = replace_kid(&t, &mut |u: &Tm| {
                        let insts = ctx.cc.instances_equal_to(u, &classes);
                        let others: Vec<&Tm> = insts.iter().filter(|x| !x.alpha_eq(u)).collect();
                        if others.is_empty() {
                            None
                        } else {
                            Some((*pick.pick(&others)).clone())
                        }
                    });
                    if let Some(c) = rep {
                        cands.push((Kind::Present, c, Some(t)));
                    }
                }
                _ => {
                    // shadowing: wrap in a binder that reuses a free name of a sibling
                    let free = t.free_vec();
                    if let Some(x) = free.first() {
                        let c = Tm::node("b", vec![], vec![(vec![], t.clone()), (vec![], Tm::node("lam", vec![], vec![(vec![*x], Tm::leaf("p1", vec![*x]))]))]);
                        cands.push((Kind::Unknown, c, None));
                    }
                }
            }
        }
        for a in 0..3u32 {
            // known absent: a constant never inserted (a different one per candidate, because
            // evaluating a candidate inserts it)
            let i = crng.below(nt);
            let t = s.tracked[i].tm.clone();
            let fresh_const = Tm::pay("k", 1000 + a);
            let c = match crng.below(3) {
                0 => fresh_const,
                1 => Tm::node("u", vec![], vec![(vec![], fresh_const)]),
                _ => Tm::node("b", vec![], vec![(vec![], t), (vec![], fresh_const)]),
            };
            cands.push((Kind::Absent, c, None));
        }
        for _ in 0..4 {
            let p = GenParams { alphabet: alphabet.min(4), max_free: 3, max_depth: 3, max_ops: 1, max_leaf: 3, binders: true };
            let mut tg = TermGen { rng: &mut crng, p: &p, next_binder: 0 };
            let scope: Vec<S> = (0..alphabet.min(3) as S).collect();
            let c = tg.term(3, &scope);
            cands.push((Kind::Unknown, c, None));
        }

        for (ci, (kind, cand, same_as)) in cands.iter().enumerate() {
            let res = catch_op(|| -> Option<Violation> {
                let re = to_re::<LS>(cand, &mut s.nm);
                let fp0 = fingerprint(&s.eg);
                let looked = lookup_rec_expr(&re, &s.eg);
                let fp1 = fingerprint(&s.eg);
                if fp0 != fp1 {
                    return Some(viol("lookup_modifies", format!("lookup_rec_expr({cand}) changed the fingerprint {fp0:?} -> {fp1:?}"), ci));
                }
                let classes_before = s.eg.progress().number_of_classes;
                let added = s.eg.add_expr(re.clone());
                let classes_after = s.eg.progress().number_of_classes;
                let created = classes_after - classes_before;
                match kind {
                    Kind::Present => {
                        if looked.is_none() {
                            return Some(viol("present_not_found", format!("{cand} is represented (equal to {}) but lookup_rec_expr returned None", same_as.as_ref().unwrap()), ci));
                        }
                        if created != 0 {
                            return Some(viol("present_creates_class", format!("add_expr({cand}) created {created} classes although the term is represented (equal to {})", same_as.as_ref().unwrap()), ci));
                        }
                    }
                    Kind::Absent => {
                        if looked.is_some() {
                            return Some(viol("absent_found", format!("lookup_rec_expr({cand}) found a term with a constant that was never inserted"), ci));
                        }
                        if created == 0 {
                            return Some(viol("absent_creates_nothing", format!("add_expr({cand}) created no class for a term with a never inserted constant"), ci));
                        }
                    }
                    Kind::Unknown => {}
                }
                if looked.is_some() != (created == 0) {
                    return Some(viol("lookup_add_disagree", format!("{cand}: lookup is_some = {}, add created {created} classes", looked.is_some()), ci));
                }
                if let Some(l) = &looked {
                    if !s.eg.eq(l, &added) {
                        return Some(viol("lookup_add_disagree", format!("{cand}: lookup gives {l:?}, add gives {added:?}, not equal"), ci));
                    }
                }
                if let Some(t) = same_as {
                    if let Some(h) = s.handle_of(t) {
                        if !s.eg.eq(&h, &added) {
                            return Some(viol("result_not_equal_existing", format!("add_expr({cand}) = {added:?} is not equal to the existing invocation {h:?} of {t}"), ci));
                        }
                    }
                    // returned slots = free slots minus redundant ones
                    if ctx.cc.is_tracked(cand) && cand.free().iter().all(|x| (*x as usize) < n) {
                        let mut got: Vec<S> = added.slots().iter().map(|x| s.nm.unslot(*x)).collect();
                        got.sort();
                        let mut want = ctx.cc.nonredundant(cand);
                        want.sort();
                        if got != want {
                            return Some(viol("returned_slots", format!("add_expr({cand}) returned slots {got:?}, expected free minus redundant = {want:?}"), ci));
                        }
                    }
                }
                // the returned invocation never has slots the term does not have
                let free = cand.free();
                for x in added.slots().iter() {
                    match s.nm.known(*x) {
                        Some(a) if free.contains(&a) => {}
                        _ => return Some(viol("returned_slots", format!("add_expr({cand}) returned {added:?} with a slot that is not free in the term"), ci)),
                    }
                }
                None
            });
            match res {
                Err(p) => {
                    if p.is_harness() {
                        panic!("harness panic: {} at {}", p.msg, p.loc);
                    }
                    out.violations.push(panic_violation("C09", "no_panic_in_lookup_or_add", &p, ci));
                    break;
                }
                Ok(Some(v)) => {
                    out.violations.push(v);
                    break;
                }
                Ok(None) => {}
            }
            out.bump(match kind {
                Kind::Present => "present_candidates",
                Kind::Absent => "absent_candidates",
                Kind::Unknown => "unknown_candidates",
            });
            out.ops_executed += 2;
        }
        out.states.push(state_hash(&s.eg));
        for (name, c) in seam::take_probes() {
            out.count(&format!("probe:{name}"), c);
        }
        let knobs = run.knobs();
        if knobs.hash_seed != 0 && out.counters.get("probe:rebuild_pop_with_choice").copied().unwrap_or(0) > 0 {
            out.bump("K1_hash_order");
        }
        if out.counters.get("probe:fresh_stride_taken").copied().unwrap_or(0) > 0 {
            out.bump("K2_fresh_stride");
        }
        if run.get("probes") != 0 && run.ops.iter().any(|o| o.name == "probe") {
            out.bump("K3_probes");
        }
        if seam::buggify_fired(1) + seam::buggify_fired(2) > 0 {
            out.bump("K4_buggify");
        }
        if run.get("old_handles") != 0 || run.get("nodewise") != 0 || run.get("naming") != 0 {
            out.bump("K5_client_schedule");
        }
        out.log_hash = s.log_hash;
        let pc = out.counters.get("present_candidates").copied().unwrap_or(0);
        let ac = out.counters.get("absent_candidates").copied().unwrap_or(0);
        out.nontrivial = any_change && pc > 0 && ac > 0;
        out
        }
}


/// C09 for nodes over a symmetric leaf. Leaf `a = p_k(x_0..x_{k-1})`; for every generator g the equation
/// `a = p_k(x_{g(0)}, ..)` is asserted, so the invocations equal to the child `p_k(x_{pi(0)}, ..)` are exactly
/// `p_k(x_{pi(h(0))}, ..)` for h in the subgroup H generated by the g's (brute-force closure). A candidate
/// parent is already represented iff some inserted parent agrees with it child by child up to H.
fn exec_sym_parent(run: &Run) -> Outcome {
    let mut out = Outcome::default();
    seam::apply(&run.knobs());
    let k = run.get("sym_parent").clamp(2, 4) as usize;
    let arity = run.get("sym_arity").clamp(2, 3) as usize;
    let mut s: Sess<LS, ()> = Sess::new(EGraph::new(()), run.get("naming") as u32);
    let leaf = |p: &[i64]| Tm::leaf(&format!("p{k}"), p.iter().map(|x| x.rem_euclid(k as i64) as S).collect());
    let ident: Vec<i64> = (0..k as i64).collect();
    let is_perm = |p: &[i64]| {
        let mut v: Vec<i64> = p.iter().map(|x| x.rem_euclid(k as i64)).collect();
        v.sort();
        v == ident
    };
    let gens: Vec<Vec<i64>> = run.ops.iter().filter(|o| o.name == "gen" && o.i.len() == k && is_perm(&o.i)).map(|o| o.i.clone()).collect();
    // closure under composition (h.g)(i) = h(g(i))
    let mut h_set: Vec<Vec<i64>> = vec![ident.clone()];
    loop {
        let mut grew = false;
        for h in h_set.clone() {
            for g in &gens {
                let c: Vec<i64> = (0..k).map(|i| h[g[i] as usize]).collect();
                if !h_set.contains(&c) {
                    h_set.push(c);
                    grew = true;
                }
            }
        }
        if !grew {
            break;
        }
    }
    let parent = |ps: &[Vec<i64>]| -> Tm {
        let kids: Vec<(Vec<S>, Tm)> = ps.iter().map(|p| (vec![], leaf(p))).collect();
        Tm::node(if arity == 3 { "t" } else { "b" }, vec![], kids)
    };
    let split = |o: &Op| -> Option<Vec<Vec<i64>>> {
        if o.i.len() != arity * k {
            return None;
        }
        let v: Vec<Vec<i64>> = o.i.chunks(k).map(|c| c.to_vec()).collect();
        if v.iter().all(|p| is_perm(p)) {
            Some(v)
        } else {
            None
        }
    };
    // same child up to H: sigma = pi . h for some h in H
    let same_child = |pi: &[i64], sigma: &[i64]| h_set.iter().any(|h| (0..k).all(|i| pi[h[i] as usize] == sigma[i]));
    let mut inserted: Vec<(Vec<Vec<i64>>, AppliedId)> = Vec::new();
    let v = |clause: &str, detail: String, at: usize| viol(clause, detail, at);
    for (at, op) in run.ops.iter().enumerate() {
        match op.name.as_str() {
            "gen" => {
                if op.i.len() != k || !is_perm(&op.i) {
                    continue;
                }
                let (a, b) = (leaf(&ident), leaf(&op.i));
                if catch_op(|| s.union_terms(&a, &b, false, false)).is_err() {
                    out.discarded = Some("panic".into());
                    return out;
                }
                out.ops_executed += 1;
            }
            "parent" | "candidate" => {
                let Some(ps) = split(op) else { continue };
                let t = parent(&ps);
                // represented = equal to an inserted parent up to a renaming rho of the free slots
                // (rho . tau_i = sigma_i . h); "the same invocation" = rho can be the identity
                let all_rho: Vec<Vec<i64>> = {
                    fn rec(k: usize, cur: &mut Vec<i64>, out: &mut Vec<Vec<i64>>) {
                        if cur.len() == k {
                            out.push(cur.clone());
                            return;
                        }
                        for x in 0..k as i64 {
                            if !cur.contains(&x) {
                                cur.push(x);
                                rec(k, cur, out);
                                cur.pop();
                            }
                        }
                    }
                    let mut o = Vec::new();
                    rec(k, &mut Vec::new(), &mut o);
                    o
                };
                let renamed_same = |qs: &Vec<Vec<i64>>| all_rho.iter().any(|rho| qs.iter().zip(ps.iter()).all(|(q, p)| { let rq: Vec<i64> = (0..k).map(|i| rho[q[i] as usize]).collect(); same_child(&rq, p) }));
                let same_inv: Option<usize> = inserted.iter().position(|(qs, _)| qs.iter().zip(ps.iter()).all(|(q, p)| same_child(q, p)));
                let expected: Option<usize> = same_inv.or_else(|| inserted.iter().position(|(qs, _)| renamed_same(qs)));
                let re = to_re::<LS>(&t, &mut s.nm);
                let r = catch_op(|| {
                    let fp0 = fingerprint(&s.eg);
                    let l = lookup_rec_expr(&re, &s.eg);
                    let fp1 = fingerprint(&s.eg);
                    let before = s.eg.progress().number_of_classes;
                    let h = s.eg.add_expr(re.clone());
                    let after = s.eg.progress().number_of_classes;
                    (l, h, before, after, fp0 == fp1)
                });
                let (l, h, before, after, ro) = match r {
                    Ok(x) => x,
                    Err(_) => {
                        out.discarded = Some("panic".into());
                        return out;
                    }
                };
                out.ops_executed += 1;
                if !ro {
                    out.violations.push(v("lookup_read_only", format!("lookup_rec_expr({t}) changed the fingerprint"), at));
                    return out;
                }
                match expected {
                    Some(j) => {
                        out.bump("present_candidates");
                        if l.is_none() {
                            out.violations.push(v("present_not_found", format!("{t} is represented (generators {gens:?}: it equals the inserted {} child by child) but lookup_rec_expr returned None", parent(&inserted[j].0)), at));
                            return out;
                        }
                        if after != before {
                            out.violations.push(v("known_term_creates_class", format!("inserting {t}, which is represented (generators {gens:?}), allocated {} classes", after - before), at));
                            return out;
                        }
                        let hj = inserted[j].1.clone();
                        let ok = catch_op(|| (same_inv.is_none() || s.eg.eq(&h, &hj)) && s.eg.eq(l.as_ref().unwrap(), &h) && s.eg.find_applied_id(&h).id == s.eg.find_applied_id(&hj).id).unwrap_or(false);
                        if !ok {
                            out.violations.push(v("result_not_equal_existing", format!("add_expr({t}) = {h:?} / lookup {l:?} is not equal to the existing invocation {hj:?}"), at));
                            return out;
                        }
                    }
                    None => {
                        out.bump("absent_candidates");
                        if l.is_some() {
                            out.violations.push(v("absent_found", format!("{t} is not represented (generators {gens:?}, inserted {:?}) but lookup_rec_expr succeeded", inserted.iter().map(|x| parent(&x.0).to_string()).collect::<Vec<_>>()), at));
                            return out;
                        }
                        if after == before {
                            out.violations.push(v("absent_creates_nothing", format!("inserting {t}, which is not represented, allocated no class"), at));
                            return out;
                        }
                    }
                }
                inserted.push((ps, h));
            }
            _ => {}
        }
        out.states.push(state_hash(&s.eg));
    }
    // symmetries asserted after the parents: every pair of inserted parents that agrees child by child
    // up to H must be equal now
    for a in 0..inserted.len() {
        for b in a + 1..inserted.len() {
            let exp = inserted[a].0.iter().zip(inserted[b].0.iter()).all(|(q, p)| same_child(q, p));
            let got = catch_op(|| s.eg.eq(&inserted[a].1, &inserted[b].1)).unwrap_or(false);
            if exp != got {
                out.violations.push(v(if exp { "result_not_equal_existing" } else { "absent_found" }, format!("{} and {} (generators {gens:?}): equal per subgroup closure = {exp}, eq = {got}", parent(&inserted[a].0), parent(&inserted[b].0)), run.ops.len()));
                return out;
            }
        }
    }
    out.bump("sym_parent_runs");
    out.log_hash = s.log_hash ^ crate::rng::hash_str(&format!("{:?}", inserted.iter().map(|x| format!("{:?}", x.1)).collect::<Vec<_>>()));
    out.nontrivial = out.discarded.is_none() && !gens.is_empty() && inserted.len() >= 2;
    out
}
