//! C09: insertion is canonical; lookup agrees with add; lookup never modifies the e-graph.

use super::sesscc::{gen_sess_run, pool_size, state_hash, CcCtx};
use super::{Check, Tier};
use crate::exec::seam;
use crate::langs::*;
use crate::rng::Rng;
use crate::run::*;
use crate::sess::*;
use crate::tm::*;
use slotted_egraphs::*;
use std::collections::BTreeMap;

pub struct CanonCheck;

fn viol(clause: &str, detail: String, at: usize) -> Violation {
    Violation { property: "C09".into(), clause: clause.into(), kind: "mismatch".into(), sig: clause.into(), triggers: vec![], detail, at_op: at }
}

#[derive(Clone, Debug, PartialEq, Eq)]
enum Kind {
    Present,
    Absent,
    Unknown,
}

fn fingerprint<L: SimLang, N: Analysis<L>>(eg: &EGraph<L, N>) -> (u64, usize, usize, usize, usize, usize) {
    let p = eg.progress();
    (state_hash(eg), p.number_of_classes, p.number_of_live_classes, p.sum_of_slots, p.sum_of_symmetries, eg.total_number_of_nodes())
}

/// replaces the first kid (not under a binder) for which `f` yields a replacement
fn replace_kid(t: &Tm, f: &mut dyn FnMut(&Tm) -> Option<Tm>) -> Option<Tm> {
    for (i, k) in t.kids.iter().enumerate() {
        if k.binders.is_empty() {
            if let Some(r) = f(&k.t) {
                let mut c = t.clone();
                c.kids[i].t = r;
                return Some(c);
            }
        }
    }
    for (i, k) in t.kids.iter().enumerate() {
        if k.binders.is_empty() {
            if let Some(r) = replace_kid(&k.t, f) {
                let mut c = t.clone();
                c.kids[i].t = r;
                return Some(c);
            }
        }
    }
    None
}

impl Check for CanonCheck {
    fn id(&self) -> &'static str {
        "C09"
    }
    fn gen(&self, seed: u64, tier: Tier) -> Run {
        let mut run = gen_sess_run("C09", seed, tier, true);
        let mut f = Rng::stream(seed, "candidates");
        run.set("cand_seed", (f.next() >> 1) as i64);
        run
    }
    fn rule(&self) -> &'static str {
        "seeded sess histories (as C01) followed by candidate terms: known-present (alpha-renamed, injectively renamed, a subterm replaced by an M_cc-equal instance), known-absent (contain a never inserted constant) and unknown (random); for each: lookup_rec_expr, then add_expr, class-count delta, agreement of both results with the expected invocation, returned slot set vs. free slots minus M_cc-redundant slots, fingerprint before/after lookup; non-trivial = at least one union changed the e-graph and at least one present and one absent candidate were evaluated; distinct = distinct canonical key"
    }
    fn fault_kinds(&self) -> &'static [&'static str] {
        &["K1_hash_order", "K2_fresh_stride", "K3_probes", "K4_buggify", "K5_client_schedule"]
    }
    fn budget(&self, tier: Tier) -> u64 {
        match tier {
            Tier::Quick => 80_000,
            Tier::Thorough => 300_000,
        }
    }

    fn exec(&self, run: &Run) -> Outcome {
        // a third of the runs carry the simulator's analysis (min size / depth / height): worklist
        // entries then come in two kinds (analysis-only and full) and data changes re-queue parents
        if run.get("analysis") != 0 {
            self.exec_with(run, EGraph::new(crate::analysis::SimAn { p: 3, modify: false }))
        } else {
            self.exec_with(run, EGraph::new(()))
        }
    }
}

impl CanonCheck {
    fn exec_with<N: Analysis<LS>>(&self, run: &Run, eg: EGraph<LS, N>) -> Outcome {
        let mut out = Outcome::default();
        seam::apply(&run.knobs());
        let mut s: Sess<LS, N> = Sess::new(eg, run.get("naming") as u32);
        let n = pool_size(&run.ops);
        let mut ctx = CcCtx::new(n);
        let mut any_change = false;
        for (k, op) in run.ops.iter().enumerate() {
            s.cur_op = k;
            let before = s.eg.progress();
            if catch_op(|| exec_sess_op(&mut s, op, run)).is_err() {
                out.discarded = Some("panic".into());
                return out;
            }
            out.ops_executed += 1;
            if op.name == "union" && before != s.eg.progress() {
                any_change = true;
            }
            match op.name.as_str() {
                "add" => ctx.track(&op.t[0]),
                "union" => {
                    ctx.track(&op.t[0]);
                    ctx.track(&op.t[1]);
                    ctx.assert_eq(&op.t[0], &op.t[1]);
                }
                _ => {}
            }
        }
        ctx.cc.close();
        let alphabet = max_name(&run.ops).max(2);
        let mut crng = Rng::stream(run.get("cand_seed") as u64, "candidates");
        let nt = s.tracked.len();
        if nt == 0 {
            return out;
        }
        // candidates
        let mut cands: Vec<(Kind, Tm, Option<Tm>)> = Vec::new(); // (kind, candidate, term whose handle it must equal)
        let classes = ctx.cc.class_map();
        for _ in 0..8 {
            let i = crng.below(nt);
            let t = s.tracked[i].tm.clone();
            if !t.free().iter().all(|x| (*x as usize) < n) {
                continue;
            }
            match crng.below(4) {
                0 => {
                    // alpha-renamed copy: binders get other names
                    let mut fr = 200 + crng.below(50) as S;
                    let c = t.rename(&BTreeMap::new(), &mut fr);
                    cands.push((Kind::Present, c, Some(t)));
                }
                1 => {
                    // injective renaming of the free slots (within the pool)
                    let free = t.free_vec();
                    let mut names: Vec<S> = (0..n as S).collect();
                    crng.shuffle(&mut names);
                    let rho: BTreeMap<S, S> = free.iter().copied().zip(names.into_iter()).collect();
                    let mut fr = 300;
                    let c = normalise_binders(&t.rename(&rho, &mut fr), n);
                    cands.push((Kind::Present, c.clone(), Some(c)));
                }
                2 => {
                    // replace a subterm by an equal instance
                    let mut pick = crng.clone();
                    let rep = replace_kid(&t, &mut |u: &Tm| {
                        let insts = ctx.cc.instances_equal_to(u, &classes);
                        let others: Vec<&Tm> = insts.iter().filter(|x| !x.alpha_eq(u)).collect();
                        if others.is_empty() {
                            None
                        } else {
                            Some((*pick.pick(&others)).clone())
                        }
                    });
                    if let Some(c) = rep {
                        cands.push((Kind::Present, c, Some(t)));
                    }
                }
                _ => {
                    // shadowing: wrap in a binder that reuses a free name of a sibling
                    let free = t.free_vec();
                    if let Some(x) = free.first() {
                        let c = Tm::node("b", vec![], vec![(vec![], t.clone()), (vec![], Tm::node("lam", vec![], vec![(vec![*x], Tm::leaf("p1", vec![*x]))]))]);
                        cands.push((Kind::Unknown, c, None));
                    }
                }
            }
        }
        for a in 0..3u32 {
            // known absent: a constant never inserted (a different one per candidate, because
            // evaluating a candidate inserts it)
            let i = crng.below(nt);
            let t = s.tracked[i].tm.clone();
            let fresh_const = Tm::pay("k", 1000 + a);
            let c = match crng.below(3) {
                0 => fresh_const,
                1 => Tm::node("u", vec![], vec![(vec![], fresh_const)]),
                _ => Tm::node("b", vec![], vec![(vec![], t), (vec![], fresh_const)]),
            };
            cands.push((Kind::Absent, c, None));
        }
        for _ in 0..4 {
            let p = GenParams { alphabet: alphabet.min(4), max_free: 3, max_depth: 3, max_ops: 1, max_leaf: 3, binders: true };
            let mut tg = TermGen { rng: &mut crng, p: &p, next_binder: 0 };
            let scope: Vec<S> = (0..alphabet.min(3) as S).collect();
            let c = tg.term(3, &scope);
            cands.push((Kind::Unknown, c, None));
        }

        for (ci, (kind, cand, same_as)) in cands.iter().enumerate() {
            let res = catch_op(|| -> Option<Violation> {
                let re = to_re::<LS>(cand, &mut s.nm);
                let fp0 = fingerprint(&s.eg);
                let looked = lookup_rec_expr(&re, &s.eg);
                let fp1 = fingerprint(&s.eg);
                if fp0 != fp1 {
                    return Some(viol("lookup_modifies", format!("lookup_rec_expr({cand}) changed the fingerprint {fp0:?} -> {fp1:?}"), ci));
                }
                let classes_before = s.eg.progress().number_of_classes;
                let added = s.eg.add_expr(re.clone());
                let classes_after = s.eg.progress().number_of_classes;
                let created = classes_after - classes_before;
                match kind {
                    Kind::Present => {
                        if looked.is_none() {
                            return Some(viol("present_not_found", format!("{cand} is represented (equal to {}) but lookup_rec_expr returned None", same_as.as_ref().unwrap()), ci));
                        }
                        if created != 0 {
                            return Some(viol("present_creates_class", format!("add_expr({cand}) created {created} classes although the term is represented (equal to {})", same_as.as_ref().unwrap()), ci));
                        }
                    }
                    Kind::Absent => {
                        if looked.is_some() {
                            return Some(viol("absent_found", format!("lookup_rec_expr({cand}) found a term with a constant that was never inserted"), ci));
                        }
                        if created == 0 {
                            return Some(viol("absent_creates_nothing", format!("add_expr({cand}) created no class for a term with a never inserted constant"), ci));
                        }
                    }
                    Kind::Unknown => {}
                }
                if looked.is_some() != (created == 0) {
                    return Some(viol("lookup_add_disagree", format!("{cand}: lookup is_some = {}, add created {created} classes", looked.is_some()), ci));
                }
                if let Some(l) = &looked {
                    if !s.eg.eq(l, &added) {
                        return Some(viol("lookup_add_disagree", format!("{cand}: lookup gives {l:?}, add gives {added:?}, not equal"), ci));
                    }
                }
                if let Some(t) = same_as {
                    if let Some(h) = s.handle_of(t) {
                        if !s.eg.eq(&h, &added) {
                            return Some(viol("result_not_equal_existing", format!("add_expr({cand}) = {added:?} is not equal to the existing invocation {h:?} of {t}"), ci));
                        }
                    }
                    // returned slots = free slots minus redundant ones
                    if ctx.cc.is_tracked(cand) && cand.free().iter().all(|x| (*x as usize) < n) {
                        let mut got: Vec<S> = added.slots().iter().map(|x| s.nm.unslot(*x)).collect();
                        got.sort();
                        let mut want = ctx.cc.nonredundant(cand);
                        want.sort();
                        if got != want {
                            return Some(viol("returned_slots", format!("add_expr({cand}) returned slots {got:?}, expected free minus redundant = {want:?}"), ci));
                        }
                    }
                }
                // the returned invocation never has slots the term does not have
                let free = cand.free();
                for x in added.slots().iter() {
                    match s.nm.known(*x) {
                        Some(a) if free.contains(&a) => {}
                        _ => return Some(viol("returned_slots", format!("add_expr({cand}) returned {added:?} with a slot that is not free in the term"), ci)),
                    }
                }
                None
            });
            match res {
                Err(p) => {
                    if p.is_harness() {
                        panic!("harness panic: {} at {}", p.msg, p.loc);
                    }
                    out.violations.push(panic_violation("C09", "no_panic_in_lookup_or_add", &p, ci));
                    break;
                }
                Ok(Some(v)) => {
                    out.violations.push(v);
                    break;
                }
                Ok(None) => {}
            }
            out.bump(match kind {
                Kind::Present => "present_candidates",
                Kind::Absent => "absent_candidates",
                Kind::Unknown => "unknown_candidates",
            });
            out.ops_executed += 2;
        }
        out.states.push(state_hash(&s.eg));
        for (name, c) in seam::take_probes() {
            out.count(&format!("probe:{name}"), c);
        }
        let knobs = run.knobs();
        if knobs.hash_seed != 0 && out.counters.get("probe:rebuild_pop_with_choice").copied().unwrap_or(0) > 0 {
            out.bump("K1_hash_order");
        }
        if out.counters.get("probe:fresh_stride_taken").copied().unwrap_or(0) > 0 {
            out.bump("K2_fresh_stride");
        }
        if run.get("probes") != 0 && run.ops.iter().any(|o| o.name == "probe") {
            out.bump("K3_probes");
        }
        if seam::buggify_fired(1) + seam::buggify_fired(2) > 0 {
            out.bump("K4_buggify");
        }
        if run.get("old_handles") != 0 || run.get("nodewise") != 0 || run.get("naming") != 0 {
            out.bump("K5_client_schedule");
        }
        out.log_hash = s.log_hash;
        let pc = out.counters.get("present_candidates").copied().unwrap_or(0);
        let ac = out.counters.get("absent_candidates").copied().unwrap_or(0);
        out.nontrivial = any_change && pc > 0 && ac > 0;
        out
        }
}
