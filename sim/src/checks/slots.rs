//! C17: fresh slots are new, slot names are injective, print/parse identity, no cross-thread
//! influence. Engine `thr`: 1-4 threads under the baton scheduler, per-thread model M_slot.

use super::{Check, Tier};
use crate::exec::{catch, PanicInfo};
use crate::rng::Rng;
use crate::run::*;
use crate::sched::*;
use crate::sess::panic_violation;
use slotted_egraphs::{Language, RecExpr, Slot};
use std::collections::HashMap;

pub struct SlotCheck;

#[derive(Clone, Debug)]
struct Resp {
    slot: Option<Slot>,
    display: String,
    panic: Option<PanicInfo>,
}

fn adversarial_name(w: &mut Rng, fresh_made: usize) -> String {
    match w.below(16) {
        0 => format!("f{}", w.below(fresh_made + 2)),
        1 => format!("f{}", fresh_made),
        2 => format!("f{}", fresh_made + 1 + w.below(5)),
        3 => format!("f{}", 1_000 + w.below(1_000_000)),
        4 => "f+5".to_string(),
        5 => format!("0{}", w.below(20)),
        6 => format!("+{}", w.below(20)),
        7 => format!("{}", w.below(20)),
        8 => format!("f0{}", w.below(9)),
        9 => "f".to_string(),
        10 => "\u{ff15}".to_string(),
        11 => format!("x{}", w.below(6)),
        12 => format!("f{}", (1u64 << 30) - 2 + w.below(4) as u64),
        13 => format!("{}", (1u64 << 30) + 1 - w.below(4) as u64),
        14 => format!("f{}", u32::MAX as u64 + w.below(3) as u64 - 1),
        _ => ["a", "b", "fx", "ff1", "F1", "f1x", "1f", "$x", "f-1", "f 1", "x", "$5", "5", "$f0", "$f1", "$$x", "$a"][w.below(17)].to_string(),
    }
}

fn exec_slot_op(op: &Op, hist: &Vec<Resp>) -> Resp {
    let r = catch(|| match op.name.as_str() {
        "fresh" => Slot::fresh(),
        "numeric" => Slot::numeric((op.int(1).rem_euclid(1 << 30)) as u32),
        "named" => {
            let name = &op.s[0];
            let tokenizable = !name.is_empty() && name.chars().all(|c| !c.is_whitespace() && !"()[]".contains(c));
            if op.int(1) == 1 && tokenizable {
                // the same name spelled inside a term and read by the crate's parser
                let re = RecExpr::<crate::langs::LS>::parse(&format!("(p1 ${name})")).unwrap_or_else(|e| panic!("harness: (p1 ${name}) does not parse: {e:?}"));
                re.node.all_slot_occurrences()[0]
            } else {
                Slot::named(name)
            }
        }
        "reparse" => {
            let j = op.int(1).rem_euclid(hist.len().max(1) as i64) as usize;
            match hist.get(j).and_then(|r| r.slot) {
                Some(s) => {
                    let d = s.to_string();
                    Slot::named(&d[1..])
                }
                None => Slot::numeric(0),
            }
        }
        o => panic!("harness: unknown slot op {o}"),
    });
    match r {
        Ok(s) => {
            let d = catch(|| s.to_string());
            match d {
                Ok(d) => Resp { slot: Some(s), display: d, panic: None },
                Err(p) => Resp { slot: Some(s), display: String::new(), panic: Some(p) },
            }
        }
        Err(p) => Resp { slot: None, display: String::new(), panic: Some(p) },
    }
}

fn run_programs(programs: &Vec<Vec<Op>>, schedule: &[usize]) -> (Vec<(usize, usize, Resp)>, usize) {
    let progs = programs.clone();
    let nsteps: Vec<usize> = programs.iter().map(|p| p.len()).collect();
    let mut workers = spawn_workers(
        &nsteps,
        |_t| Vec::<Resp>::new(),
        move |hist: &mut Vec<Resp>, t, k| {
            let r = exec_slot_op(&progs[t][k], hist);
            hist.push(r.clone());
            r
        },
    );
    run_schedule(&mut workers, schedule)
}

impl Check for SlotCheck {
    fn id(&self) -> &'static str {
        "C17"
    }

    fn gen(&self, seed: u64, tier: Tier) -> Run {
        let mut run = Run::new("C17", seed);
        let mut w = Rng::stream(seed, "workload");
        let threads = 1 + w.weighted(&[3, 3, 2, 2]);
        run.set("threads", threads as i64);
        let maxops = if tier == Tier::Quick { 12 } else { 30 };
        let mut total = 0;
        // (own stream) ladder: a thread starts by spelling `f<T>` far above its fresh counter (0 in a new
        // thread), then climbs towards it with nearer names `f<step>`, `f<2 step>`, ..., `f<T-1>` and calls
        // fresh: the far name has to stay reserved however far away it was when it was spelled
        let mut lr = Rng::stream(seed, "ladder");
        let ladder_thread = if lr.chance(1, 6) { lr.below(threads) } else { usize::MAX };
        for t in 0..threads {
            if t == ladder_thread {
                let d = *lr.pick(&[300u64, 5_000, 70_000, 1_100_000, 3_000_000, 20_000_000]);
                let rungs = *lr.pick(&[2u64, 3, 4, 6]);
                let step = d / rungs + 1;
                let via_parser = lr.below(2) as i64;
                run.ops.push(Op::new("named").i(t as i64).i(via_parser).s(&format!("f{d}")));
                total += 1;
                let mut j = step;
                while j < d - 1 {
                    run.ops.push(Op::new("named").i(t as i64).i(via_parser).s(&format!("f{j}")));
                    total += 1;
                    j += step;
                }
                run.ops.push(Op::new("named").i(t as i64).i(via_parser).s(&format!("f{}", d - 1)));
                run.ops.push(Op::new("fresh").i(t as i64));
                run.ops.push(Op::new("fresh").i(t as i64));
                total += 3;
            }
            let n = w.range(1, maxops);
            let mut fresh_made = 0usize;
            for k in 0..n {
                let op = match w.weighted(&[5, 2, 6, 3]) {
                    0 => {
                        fresh_made += 1;
                        Op::new("fresh").i(t as i64)
                    }
                    1 => Op::new("numeric").i(t as i64).i(*w.pick(&[0, 1, 2, 5, 7, (1 << 30) - 1, (1 << 29) + 3]) as i64),
                    2 => {
                        // the crate's counter after `fresh_made` calls is not known to the
                        // generator exactly (named f<n> bumps it); names around it are what matters
                        Op::new("named").i(t as i64).i(w.below(2) as i64).s(&adversarial_name(&mut w, fresh_made))
                    }
                    _ => Op::new("reparse").i(t as i64).i(w.below(k + 1) as i64),
                };
                run.ops.push(op);
                total += 1;
            }
        }
        let mut sch = Rng::stream(seed, "schedule");
        let mut so = Op::new("schedule");
        for _ in 0..total {
            so = so.i(sch.below(threads) as i64);
        }
        run.ops.push(so);
        run
    }

    fn rule(&self) -> &'static str {
        "1-4 threads, each a seeded program of fresh / numeric / named(adversarial names: f<n> around the fresh counter, leading zeros, signs, huge numbers, unicode digits) / print-then-parse, interleaved call by call by the baton scheduler from an explicit schedule; per-thread model M_slot; each thread's observations compared with the same program run alone; non-trivial = at least one fresh call after a named or numeric call in the same thread and (if more than one thread) at least one context switch; distinct = distinct canonical key"
    }

    fn fault_kinds(&self) -> &'static [&'static str] {
        &["K7_context_switches", "K7_thread_birth"]
    }

    fn budget(&self, tier: Tier) -> u64 {
        match tier {
            Tier::Quick => 12_000,
            Tier::Thorough => 150_000,
        }
    }

    fn exec(&self, run: &Run) -> Outcome {
        let mut out = Outcome::default();
        let threads = run.get("threads").clamp(1, 8) as usize;
        let mut programs: Vec<Vec<Op>> = vec![Vec::new(); threads];
        let mut schedule: Vec<usize> = Vec::new();
        for op in &run.ops {
            if op.name == "schedule" {
                schedule = op.i.iter().map(|x| x.rem_euclid(threads as i64) as usize).collect();
            } else {
                let t = op.int(0).rem_euclid(threads as i64) as usize;
                programs[t].push(op.clone());
            }
        }
        let (events, switches) = run_programs(&programs, &schedule);
        out.ops_executed = events.len() as u64;
        out.count("K7_context_switches", switches as u64);
        out.count("K7_thread_birth", threads as u64);

        let viol = |clause: &str, detail: String, at: usize| Violation {
            property: "C17".into(),
            clause: clause.into(),
            kind: "mismatch".into(),
            sig: clause.into(),
            triggers: vec![],
            detail,
            at_op: at,
        };

        // per-thread model
        let mut by_name: Vec<HashMap<String, Slot>> = vec![HashMap::new(); threads];
        let mut by_slot: Vec<HashMap<Slot, String>> = vec![HashMap::new(); threads];
        let mut log = 0u64;
        let mut fresh_after_name = false;
        let mut named_seen = vec![false; threads];
        let mut per_thread: Vec<Vec<Resp>> = vec![Vec::new(); threads];
        'ev: for (n, (t, k, r)) in events.iter().enumerate() {
            let op = &programs[*t][*k];
            let prev_len = per_thread[*t].len();
            let reparse_src: Option<Resp> = if op.name == "reparse" && prev_len > 0 {
                Some(per_thread[*t][op.int(1).rem_euclid(prev_len as i64) as usize].clone())
            } else {
                None
            };
            per_thread[*t].push(r.clone());
            log = crate::rng::mix(log ^ crate::rng::hash_str(&format!("{t}/{k}/{}/{:?}", r.display, r.panic.as_ref().map(|p| p.norm_msg()))));
            if let Some(p) = &r.panic {
                if p.msg.starts_with("harness:") {
                    panic!("{}", p.msg);
                }
                if p.msg.contains("fresh slot counter exhausted") {
                    // legitimate: the u32 counter is used up (only reachable through a name
                    // $f<n> at the very top of the range). Nothing more to check in this run.
                    out.bump("counter_exhausted");
                    break 'ev;
                }
                out.violations.push(panic_violation("C17", "no_panic", p, n));
                break 'ev;
            }
            let x = r.slot.unwrap();
            // requested name
            let requested: Option<String> = match op.name.as_str() {
                "named" => Some(op.s[0].clone()),
                "numeric" => Some(format!("{}", op.int(1).rem_euclid(1 << 30))),
                "reparse" => Some(match &reparse_src {
                    Some(src) => src.display[1..].to_string(),
                    None => "0".to_string(),
                }),
                _ => None,
            };
            match op.name.as_str() {
                "fresh" => {
                    if named_seen[*t] {
                        fresh_after_name = true;
                    }
                    if let Some(old) = by_slot[*t].get(&x) {
                        out.violations.push(viol("fresh_is_new", format!("thread {t}: fresh() returned {} which was obtained earlier under the name {old:?}", r.display), n));
                        break 'ev;
                    }
                }
                "reparse" => {
                    if let Some(src) = &reparse_src {
                        if src.slot.unwrap() != x {
                            out.violations.push(viol("print_parse_identity", format!("thread {t}: parsing the printed name {:?} gives {} instead of the same slot", src.display, r.display), n));
                            break 'ev;
                        }
                    }
                    named_seen[*t] = true;
                }
                _ => {
                    named_seen[*t] = true;
                }
            }
            if let Some(nm) = requested {
                if let Some(old) = by_name[*t].get(&nm) {
                    if *old != x {
                        out.violations.push(viol("names_functional", format!("thread {t}: name {nm:?} gave {} now and another slot before", r.display), n));
                        break 'ev;
                    }
                } else {
                    if let Some(other) = by_slot[*t].get(&x) {
                        if *other != nm {
                            out.violations.push(viol("names_injective", format!("thread {t}: distinct names {other:?} and {nm:?} denote the same slot {}", r.display), n));
                            break 'ev;
                        }
                    }
                    by_name[*t].insert(nm.clone(), x);
                }
                by_slot[*t].entry(x).or_insert(nm);
            } else {
                let nm = r.display.get(1..).unwrap_or("").to_string();
                by_name[*t].entry(nm.clone()).or_insert(x);
                by_slot[*t].entry(x).or_insert(nm);
            }
            out.bump("slot_ops_checked");
        }

        // no cross-thread influence: each program alone gives the same observations
        if out.violations.is_empty() && threads > 1 {
            for t in 0..threads {
                let solo = vec![programs[t].clone()];
                let (ev, _) = run_programs(&solo, &[]);
                // (slots are compared as values; only their recorded display strings are printed,
                // because a named slot can only be printed by the thread that interned it)
                let n = per_thread[t].len();
                let a: Vec<(Option<Slot>, String)> = ev.iter().take(n).map(|(_, _, r)| (r.slot, r.display.clone())).collect();
                let b: Vec<(Option<Slot>, String)> = per_thread[t].iter().map(|r| (r.slot, r.display.clone())).collect();
                if a != b {
                    let da: Vec<&String> = a.iter().map(|x| &x.1).collect();
                    let db: Vec<&String> = b.iter().map(|x| &x.1).collect();
                    let same_names = da == db;
                    out.violations.push(viol("thread_independence", format!("thread {t} observed {db:?} when interleaved but {da:?} alone (same printed names: {same_names})"), 0));
                    break;
                }
                out.bump("solo_comparisons");
            }
        }
        out.log_hash = log;
        out.nontrivial = fresh_after_name && (threads == 1 || switches > 0);
        out
    }
}
