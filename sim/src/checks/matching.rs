//! C05: every reported match denotes a represented term; matching is read-only.
//! C04: every represented instance of a rule's left side fires (planted instances).

use super::sesscc::{gen_sess_run, state_hash};
use super::{Check, Tier};
use crate::exec::seam;
use crate::langs::*;
use crate::rng::Rng;
use crate::run::*;
use crate::sess::*;
use crate::tm::*;
use slotted_egraphs::*;
use std::collections::BTreeMap;

fn viol(prop: &str, clause: &str, detail: String, at: usize) -> Violation {
    Violation { property: prop.into(), clause: clause.into(), kind: "mismatch".into(), sig: clause.into(), triggers: vec![], detail, at_op: at }
}

/// bottom-up lookup of a pattern instantiated with a substitution
pub fn lookup_pattern<L: SimLang, N: Analysis<L>>(pat: &Pattern<L>, subst: &Subst, eg: &EGraph<L, N>) -> Result<AppliedId, String> {
    match pat {
        Pattern::PVar(v) => subst.get(v).cloned().ok_or_else(|| format!("variable ?{v} is not bound")),
        Pattern::ENode(n, kids) => {
            let mut n = n.clone();
            let mut ids = Vec::new();
            for k in kids {
                ids.push(lookup_pattern(k, subst, eg)?);
            }
            for (r, id) in n.applied_id_occurrences_mut().into_iter().zip(ids.into_iter()) {
                *r = id;
            }
            eg.lookup(&n).ok_or_else(|| format!("node {n:?} is not represented"))
        }
        Pattern::Subst(..) => Err("subst pattern on the left".into()),
    }
}

/// a pattern obtained from a term by replacing subterms with variables
fn abstract_term(t: &Tm, rng: &mut Rng, assigned: &mut Vec<(Tm, u32)>, depth: usize) -> Pat {
    let p_var = if depth == 0 { 0 } else { 35 };
    if rng.below(100) < p_var {
        // reuse the variable for an identical subterm, sometimes (wrongly) for another one
        if let Some((_, v)) = assigned.iter().find(|(x, _)| x == t) {
            if rng.chance(3, 4) {
                return Pat::Var(*v);
            }
        }
        if !assigned.is_empty() && rng.chance(1, 8) {
            return Pat::Var(assigned[rng.below(assigned.len())].1);
        }
        let v = assigned.len() as u32;
        assigned.push((t.clone(), v));
        return Pat::Var(v);
    }
    Pat::Node {
        op: t.op,
        pay: t.pay,
        slots: t.slots.clone(),
        kids: t.kids.iter().map(|k| (k.binders.clone(), abstract_term(&k.t, rng, assigned, depth + 1))).collect(),
    }
}

pub struct MatchCheck;

fn pat_slots(p: &Pat, out: &mut Vec<S>) {
    if let Pat::Node { slots, kids, .. } = p {
        for s in slots {
            if !out.contains(s) {
                out.push(*s);
            }
        }
        for (_, k) in kids {
            pat_slots(k, out);
        }
    }
}

fn rename_pat_slot(p: &Pat, from: S, to: S) -> Pat {
    match p {
        Pat::Node { op, pay, slots, kids } => Pat::Node {
            op: *op,
            pay: *pay,
            slots: slots.iter().map(|s| if *s == from { to } else { *s }).collect(),
            kids: kids
                .iter()
                .map(|(b, k)| {
                    if b.contains(&from) || b.contains(&to) {
                        (b.clone(), k.clone())
                    } else {
                        (b.clone(), rename_pat_slot(k, from, to))
                    }
                })
                .collect(),
        },
        other => other.clone(),
    }
}

/// non-injective renaming of two (non-binder) slots of the pattern
fn merge_two_slots(p: &Pat, rng: &mut Rng) -> Pat {
    let mut sl = Vec::new();
    pat_slots(p, &mut sl);
    if sl.len() < 2 {
        return p.clone();
    }
    let a = sl[rng.below(sl.len())];
    let b = sl[rng.below(sl.len())];
    if a == b {
        return p.clone();
    }
    rename_pat_slot(p, a, b)
}

fn pat_op(p: &Pat) -> Op {
    Op::new("pattern").s(&p.to_string())
}

// ---- tiny parser for Pat's textual form (replay files) -------------------------------------
pub fn parse_pat(s: &str) -> Result<Pat, String> {
    let mut lx = Lexer::new(s);
    let p = pat_rec(&mut lx)?;
    if !lx.done() {
        return Err(format!("trailing input in pattern {s}"));
    }
    Ok(p)
}

fn pat_rec(lx: &mut Lexer) -> Result<Pat, String> {
    let t = lx.next()?;
    if let Some(v) = t.strip_prefix('?') {
        return Ok(Pat::Var(v.parse().map_err(|_| format!("bad var {t}"))?));
    }
    if t == "{" {
        // {b / x := t}
        return Err("subst patterns are written with ops, see parse_pat_subst".into());
    }
    let paren = t == "(";
    let head = if paren { lx.next()? } else { t };
    if head == "subst" {
        let b = pat_rec(lx)?;
        let x = pat_rec(lx)?;
        let t = pat_rec(lx)?;
        if paren {
            lx.expect(")")?;
        }
        return Ok(Pat::Subst(Box::new(b), Box::new(x), Box::new(t)));
    }
    let (name, pay) = match head.split_once(':') {
        Some((n, p)) => (n, p.parse::<u32>().map_err(|e| format!("{e}"))?),
        None => (head, 0),
    };
    let opi = op_index(name).ok_or_else(|| format!("unknown op {name}"))?;
    let sp = &OPS[opi as usize];
    let mut slots = Vec::new();
    for _ in 0..sp.nslots {
        slots.push(lx.slot()?);
    }
    let mut kids = Vec::new();
    for nb in sp.kids {
        let mut binders = Vec::new();
        if *nb > 0 {
            lx.expect("[")?;
            for _ in 0..*nb {
                binders.push(lx.slot()?);
            }
            lx.expect("]")?;
        }
        kids.push((binders, pat_rec(lx)?));
    }
    if paren {
        lx.expect(")")?;
    }
    Ok(Pat::Node { op: opi, pay, slots, kids })
}

impl Check for MatchCheck {
    fn id(&self) -> &'static str {
        "C05"
    }
    fn gen(&self, seed: u64, tier: Tier) -> Run {
        let mut run = gen_sess_run("C05", seed, tier, true);
        let mut rng = Rng::stream(seed, "patterns");
        // patterns abstracted from the terms of the history
        let terms: Vec<Tm> = all_terms(&run.ops).iter().flat_map(|t| t.subterms()).collect();
        let np = rng.range(2, 5);
        for _ in 0..np {
            if terms.is_empty() {
                break;
            }
            let t = rng.pick(&terms).clone();
            let mut assigned = Vec::new();
            let mut p = abstract_term(&t, &mut rng, &mut assigned, 0);
            if rng.chance(1, 3) {
                // identify two distinct slots of the pattern (it must then not match terms that
                // have two different slots in those positions), or split nothing
                p = merge_two_slots(&p, &mut rng);
            }
            run.ops.push(pat_op(&p));
        }
        {
            // (own stream) wide patterns: a term over 11-14 distinct slots in no particular order (three
            // leaves, half of the time under 2-4 binders) is inserted, and matched by itself as a pattern
            // and by copies in which a late slot is identified with an earlier one (no match: a pattern
            // slot stands for one e-graph slot). The crate's slot maps leave their inline storage at 10.
            let mut wr = Rng::stream(seed, "wide-pattern");
            if wr.chance(1, 10) {
                let n = 11 + wr.below(4);
                let mut names: Vec<S> = (40..40 + n as S).collect();
                wr.shuffle(&mut names);
                let k1 = 6;
                let k2 = (n - 6).min(6);
                let a = Tm::leaf("p6", names[..k1].to_vec());
                let b = Tm::leaf(&format!("p{k2}"), names[k1..k1 + k2].to_vec());
                let rest: Vec<S> = names[k1 + k2..].to_vec();
                let c = if rest.is_empty() { Tm::leaf("p2", vec![names[0], names[n - 1]]) } else { Tm::leaf(&format!("p{}", rest.len() + 1), rest.iter().copied().chain([names[0]]).collect()) };
                let mut t = Tm::node("t", vec![], vec![(vec![], a), (vec![], b), (vec![], c)]);
                let nb = if wr.chance(1, 2) { 2 + wr.below(3) } else { 0 };
                let mut bound: Vec<S> = names.clone();
                wr.shuffle(&mut bound);
                bound.truncate(nb);
                let mut i = 0;
                while i < bound.len() {
                    if i + 1 < bound.len() && wr.chance(1, 2) {
                        t = Tm::node("lam2", vec![], vec![(vec![bound[i], bound[i + 1]], t)]);
                        i += 2;
                    } else {
                        t = Tm::node("lam", vec![], vec![(vec![bound[i]], t)]);
                        i += 1;
                    }
                }
                let pos = wr.below(run.ops.len() + 1);
                run.ops.insert(pos, Op::new("add").t(t.clone()));
                let p0 = Pat::from_tm(&t);
                run.ops.push(pat_op(&p0));
                for _ in 0..3 {
                    // identify a slot that occurs late in the traversal with an earlier one
                    let late = names[n - 1 - wr.below(3)];
                    let early = names[wr.below(n - 3)];
                    if late != early {
                        run.ops.push(pat_op(&rename_pat_slot(&p0, late, early)));
                    }
                }
                run.set("wide_pattern", 1);
            }
        }
        // patterns made from e-nodes as the e-graph lists them (with the class's internal slot names)
        for _ in 0..rng.range(0, 2) {
            run.ops.push(Op::new("enode_pattern").i(rng.below(64) as i64).i(rng.below(8) as i64).i(rng.below(4) as i64));
        }
        // a multi-pattern: root equation plus equations for some of its children
        // (not in the wide-pattern runs: unifying two invocations of a 13-slot class in `multi_ematch` is a
        // performance cliff of the library - minutes per call - and there is no budget seam in that loop)
        for _ in 0..(if run.get("wide_pattern") != 0 { 0 } else { rng.range(1, 2) }) {
            let cands: Vec<&Tm> = terms.iter().filter(|t| !t.kids.is_empty()).collect();
            if cands.is_empty() {
                break;
            }
            let t = (*rng.pick(&cands)).clone();
            let mut o = Op::new("multipattern");
            // equation 0: ?100 == root(?kid vars)
            let mut next = 0u32;
            let mut eqs: Vec<(u32, Pat)> = Vec::new();
            let root_kids: Vec<(Vec<S>, Pat)> = t
                .kids
                .iter()
                .map(|k| {
                    // sometimes an earlier variable again (non-linear root equation)
                    let v = if next > 0 && rng.chance(1, 4) { rng.below(next as usize) as u32 } else { next };
                    if v == next {
                        next += 1;
                    }
                    (k.binders.clone(), Pat::Var(v))
                })
                .collect();
            eqs.push((100, Pat::Node { op: t.op, pay: t.pay, slots: t.slots.clone(), kids: root_kids }));
            for (i, k) in t.kids.iter().enumerate() {
                if rng.chance(1, 2) {
                    let kk: Vec<(Vec<S>, Pat)> = k
                        .t
                        .kids
                        .iter()
                        .map(|g| {
                            // sometimes reuse a variable: non-linear multi-pattern
                            let v = if next > 0 && rng.chance(1, 4) { rng.below(next as usize) as u32 } else { next };
                            if v == next {
                                next += 1;
                            }
                            (g.binders.clone(), Pat::Var(v))
                        })
                        .collect();
                    eqs.push((i as u32, Pat::Node { op: k.t.op, pay: k.t.pay, slots: k.t.slots.clone(), kids: kk }));
                }
            }
            {
                // (own stream) a second root that shares child variables with the first one, leaf
                // equations for every child that is a leaf, and sometimes two slots of the whole
                // multi-pattern identified: then the instance the pattern was read off is NOT a match
                // any more (a pattern slot stands for one e-graph slot), and nothing else may be
                // reported unless it really is represented
                let mut mr = Rng::stream(seed ^ eqs.len() as u64, "multi-extra");
                if mr.chance(1, 2) {
                    let kid_var: Vec<(Tm, u32)> = match &eqs[0].1 {
                        Pat::Node { kids, .. } => t.kids.iter().zip(kids.iter()).filter_map(|(k, (_, p))| if let Pat::Var(v) = p { Some((k.t.clone(), *v)) } else { None }).collect(),
                        _ => Vec::new(),
                    };
                    let others: Vec<&Tm> = terms.iter().filter(|u| !u.kids.is_empty() && **u != t && u.kids.iter().any(|k| kid_var.iter().any(|(kt, _)| *kt == k.t))).collect();
                    if !others.is_empty() {
                        let u = (*mr.pick(&others)).clone();
                        let kids: Vec<(Vec<S>, Pat)> = u
                            .kids
                            .iter()
                            .map(|k| {
                                let v = match kid_var.iter().find(|(kt, _)| *kt == k.t) {
                                    Some((_, v)) => *v,
                                    None => {
                                        next += 1;
                                        next - 1
                                    }
                                };
                                (k.binders.clone(), Pat::Var(v))
                            })
                            .collect();
                        eqs.push((101, Pat::Node { op: u.op, pay: u.pay, slots: u.slots.clone(), kids }));
                    }
                    // leaf equations for the children of the first root that are leaves
                    for (kt, v) in &kid_var {
                        if kt.kids.is_empty() && !eqs.iter().any(|(w, _)| w == v) && mr.chance(2, 3) {
                            eqs.push((*v, Pat::Node { op: kt.op, pay: kt.pay, slots: kt.slots.clone(), kids: vec![] }));
                        }
                    }
                }
                if mr.chance(1, 3) {
                    let mut sl = Vec::new();
                    for (_, p) in &eqs {
                        pat_slots(p, &mut sl);
                    }
                    sl.sort();
                    sl.dedup();
                    if sl.len() >= 2 {
                        let a = sl[mr.below(sl.len())];
                        let b = sl[mr.below(sl.len())];
                        if a != b {
                            eqs = eqs.into_iter().map(|(v, p)| (v, rename_pat_slot(&p, a, b))).collect();
                        }
                    }
                }
            }
            // the order of the equations decides which variables are already bound when a node
            // is matched
            if rng.chance(1, 2) {
                rng.shuffle(&mut eqs);
            }
            for (v, p) in eqs {
                o = o.i(v as i64).s(&p.to_string());
            }
            run.ops.push(o);
        }
        run
    }
    fn rule(&self) -> &'static str {
        "seeded sess histories over LS (symmetric and redundant classes included), then 2-5 patterns abstracted from the history's terms (repeated variables, binders, free slots) and 1-2 multi-patterns (depth-1 equations, some non-linear); every returned substitution is validated by bottom-up lookup (single) or lookup + eq per equation (multi), fingerprint before/after; non-trivial = at least one union changed the e-graph and at least one substitution was validated; distinct = distinct canonical key"
    }
    fn fault_kinds(&self) -> &'static [&'static str] {
        &["K1_hash_order", "K2_fresh_stride", "K3_probes", "K4_buggify", "K5_client_schedule"]
    }
    fn budget(&self, tier: Tier) -> u64 {
        match tier {
            Tier::Quick => 40_000,
            Tier::Thorough => 250_000,
        }
    }
    fn exec(&self, run: &Run) -> Outcome {
        let mut out = Outcome::default();
        seam::apply(&run.knobs());
        let mut s: Sess<LS, ()> = Sess::new(EGraph::new(()), run.get("naming") as u32);
        if run.get("companion") != 0 {
            s.enable_companion();
        }
        let mut any_change = false;
        for (k, op) in run.ops.iter().enumerate() {
            s.cur_op = k;
            match op.name.as_str() {
                "pattern" => {
                    let Ok(pat) = parse_pat(&op.s[0]) else { continue };
                    let cp: Pattern<LS> = pat.to_pattern::<LS>(&mut s.nm);
                    let mut vars = Vec::new();
                    pat.vars(&mut vars);
                    let r = catch_op(|| -> Option<Violation> {
                        let fp0 = (state_hash(&s.eg), s.eg.total_number_of_nodes());
                        let ms = ematch_all(&s.eg, &cp);
                        let fp1 = (state_hash(&s.eg), s.eg.total_number_of_nodes());
                        if fp0 != fp1 {
                            return Some(viol("C05", "matching_modifies", format!("ematch_all({pat}) changed the fingerprint"), k));
                        }
                        out.count("single_matches", ms.len() as u64);
                        for m in &ms {
                            for v in &vars {
                                if !m.contains_key(&pvar_name(*v)) {
                                    return Some(viol("C05", "all_variables_bound", format!("ematch_all({pat}) returned a substitution without ?{v}: {m:?}"), k));
                                }
                            }
                            if let Err(e) = lookup_pattern(&cp, m, &s.eg) {
                                return Some(viol("C05", "match_is_represented", format!("ematch_all({pat}) returned {m:?} but {e}"), k));
                            }
                            out.bump("substitutions_validated");
                        }
                        None
                    });
                    match r {
                        Err(p) => {
                            if p.is_harness() {
                                panic!("harness panic: {} at {}", p.msg, p.loc);
                            }
                            out.discarded = Some("panic_in_match".into());
                            break;
                        }
                        Ok(Some(v)) => {
                            out.violations.push(v);
                            break;
                        }
                        Ok(None) => {}
                    }
                }
                "enode_pattern" => {
                    let r = catch_op(|| -> Option<Violation> {
                        let ids = s.eg.ids();
                        if ids.is_empty() {
                            return None;
                        }
                        let id = ids[op.int(0).rem_euclid(ids.len() as i64) as usize];
                        let mut ns: Vec<LS> = s.eg.enodes(id).into_iter().collect();
                        ns.sort();
                        let mut n = ns[op.int(1).rem_euclid(ns.len() as i64) as usize].clone();
                        let nkids = n.applied_id_occurrences().len();
                        for r in n.applied_id_occurrences_mut() {
                            *r = AppliedId::null();
                        }
                        // rotate the slots the node mentions directly (a legal renaming of pattern slots)
                        let mut sl: Vec<Slot> = n.all_slot_occurrences();
                        sl.sort();
                        sl.dedup();
                        let rot = op.int(2).rem_euclid(4) as usize;
                        if sl.len() >= 2 && rot > 0 {
                            let m: std::collections::HashMap<Slot, Slot> = sl.iter().enumerate().map(|(i, x)| (*x, sl[(i + rot) % sl.len()])).collect();
                            for x in n.all_slot_occurrences_mut() {
                                *x = m[x];
                            }
                        }
                        let cp: Pattern<LS> = Pattern::ENode(n, (0..nkids).map(|i| Pattern::PVar(pvar_name(i as u32))).collect());
                        let fp0 = (state_hash(&s.eg), s.eg.total_number_of_nodes());
                        let ms = ematch_all(&s.eg, &cp);
                        let fp1 = (state_hash(&s.eg), s.eg.total_number_of_nodes());
                        if fp0 != fp1 {
                            return Some(viol("C05", "matching_modifies", format!("ematch_all({cp}) changed the fingerprint"), k));
                        }
                        out.count("enode_pattern_matches", ms.len() as u64);
                        for m in &ms {
                            for i in 0..nkids {
                                if !m.contains_key(&pvar_name(i as u32)) {
                                    return Some(viol("C05", "all_variables_bound", format!("ematch_all({cp}) returned {m:?}"), k));
                                }
                            }
                            if let Err(e) = lookup_pattern(&cp, m, &s.eg) {
                                return Some(viol("C05", "match_is_represented", format!("ematch_all({cp}) returned {m:?} but {e}"), k));
                            }
                            out.bump("substitutions_validated");
                        }
                        None
                    });
                    match r {
                        Err(_) => {
                            out.discarded = Some("panic_in_match".into());
                            break;
                        }
                        Ok(Some(v)) => {
                            out.violations.push(v);
                            break;
                        }
                        Ok(None) => {}
                    }
                }
                "multipattern" => {
                    // equations (var, pattern-with-var-children)
                    let mut eqs: Vec<(u32, Pat)> = Vec::new();
                    for (i, st) in op.s.iter().enumerate() {
                        if let Ok(p) = parse_pat(st) {
                            eqs.push((op.int(i) as u32, p));
                        }
                    }
                    if eqs.is_empty() {
                        continue;
                    }
                    let cps: Vec<(String, Pattern<LS>)> = eqs.iter().map(|(v, p)| (pvar_name(*v), p.to_pattern::<LS>(&mut s.nm))).collect();
                    let text = cps.iter().map(|(v, p)| format!("?{v} == {p}")).collect::<Vec<_>>().join(", ");
                    let r = catch_op(|| -> Option<Violation> {
                        let mp = match MultiPattern::<LS>::parse(&text) {
                            Ok(m) => m,
                            Err(_) => return None,
                        };
                        let fp0 = (state_hash(&s.eg), s.eg.total_number_of_nodes());
                        let ms = multi_ematch(&mp, &s.eg);
                        let fp1 = (state_hash(&s.eg), s.eg.total_number_of_nodes());
                        if fp0 != fp1 {
                            return Some(viol("C05", "matching_modifies", format!("multi_ematch({text}) changed the fingerprint"), k));
                        }
                        out.count("multi_matches", ms.len() as u64);
                        for m in &ms {
                            for (v, cp) in &cps {
                                let Some(bound) = m.get(v) else {
                                    return Some(viol("C05", "all_variables_bound", format!("multi_ematch({text}) returned {m:?} without ?{v}"), k));
                                };
                                match lookup_pattern(cp, m, &s.eg) {
                                    Err(e) => return Some(viol("C05", "match_is_represented", format!("multi_ematch({text}) returned {m:?} but {e}"), k)),
                                    Ok(l) => {
                                        if !s.eg.eq(&l, bound) {
                                            return Some(viol("C05", "multi_equation_holds", format!("multi_ematch({text}) returned {m:?}: ?{v} = {bound:?} but the node is {l:?}"), k));
                                        }
                                    }
                                }
                            }
                            out.bump("substitutions_validated");
                        }
                        None
                    });
                    match r {
                        Err(p) => {
                            if p.is_harness() {
                                panic!("harness panic: {} at {}", p.msg, p.loc);
                            }
                            out.discarded = Some("panic_in_match".into());
                            break;
                        }
                        Ok(Some(v)) => {
                            out.violations.push(v);
                            break;
                        }
                        Ok(None) => {}
                    }
                }
                _ => {
                    let before = s.eg.progress();
                    if catch_op(|| exec_sess_op(&mut s, op, run)).is_err() {
                        out.discarded = Some("panic".into());
                        break;
                    }
                    if op.name == "union" && before != s.eg.progress() {
                        any_change = true;
                    }
                }
            }
            out.ops_executed += 1;
        }
        out.states.push(state_hash(&s.eg));
        finish_counters(&mut out, run);
        out.log_hash = s.log_hash;
        out.nontrivial = out.discarded.is_none() && any_change && out.counters.get("substitutions_validated").copied().unwrap_or(0) > 0;
        out
    }
}

pub fn finish_counters(out: &mut Outcome, run: &Run) {
    for (name, c) in seam::take_probes() {
        out.count(&format!("probe:{name}"), c);
    }
    let knobs = run.knobs();
    if knobs.hash_seed != 0 {
        out.bump("K1_hash_order");
    }
    if out.counters.get("probe:fresh_stride_taken").copied().unwrap_or(0) > 0 {
        out.bump("K2_fresh_stride");
    }
    if run.get("probes") != 0 && run.ops.iter().any(|o| o.name == "probe") {
        out.bump("K3_probes");
    }
    if seam::buggify_fired(1) + seam::buggify_fired(2) + seam::buggify_fired(4) > 0 {
        out.bump("K4_buggify");
    }
    out.count("K4_compression_skipped", seam::buggify_fired(1));
    out.count("K4_fastpath_skipped", seam::buggify_fired(2));
    out.count("K4_merge_direction_flipped", seam::buggify_fired(4));
    if run.get("old_handles") != 0 || run.get("nodewise") != 0 || run.get("naming") != 0 {
        out.bump("K5_client_schedule");
    }
    out.count("rebuild_ticks", seam::ticks());
}

// =============================================================================================
// C04
// =============================================================================================

pub struct FireCheck {
    pub id: &'static str,
}

struct PatGen<'a> {
    rng: &'a mut Rng,
    nvars: u32,
    /// for each variable: binders in scope at its occurrences (None = conflicting scopes)
    var_scope: Vec<Vec<S>>,
    next_bound: S,
}

const PAT_FREE: [S; 2] = [0, 1];
const BOUND_BASE: S = 10;
const INST_SLOTS: [S; 3] = [20, 21, 22];

impl<'a> PatGen<'a> {
    fn var(&mut self, scope: &[S]) -> Pat {
        // reuse a variable only under exactly the same binders
        let same: Vec<u32> = (0..self.nvars).filter(|v| self.var_scope[*v as usize] == scope).collect();
        if !same.is_empty() && self.rng.chance(1, 3) {
            return Pat::Var(*self.rng.pick(&same));
        }
        if self.nvars >= 3 {
            if !same.is_empty() {
                return Pat::Var(*self.rng.pick(&same));
            }
            return Pat::pay("k", self.rng.below(2) as u32);
        }
        let v = self.nvars;
        self.nvars += 1;
        self.var_scope.push(scope.to_vec());
        Pat::Var(v)
    }
    fn pat(&mut self, depth: usize, scope: &[S]) -> Pat {
        if depth == 0 {
            return match self.rng.below(6) {
                0 => Pat::pay("k", self.rng.below(2) as u32),
                1 => {
                    let mut names: Vec<S> = PAT_FREE.to_vec();
                    names.extend(scope.iter().copied());
                    let a = *self.rng.pick(&names);
                    Pat::node("p1", vec![a], vec![])
                }
                2 => {
                    let mut names: Vec<S> = PAT_FREE.to_vec();
                    names.extend(scope.iter().copied());
                    let a = *self.rng.pick(&names);
                    let mut b = *self.rng.pick(&names);
                    if a == b {
                        b = *names.iter().find(|x| **x != a).unwrap();
                    }
                    Pat::node("p2", vec![a, b], vec![])
                }
                _ => self.var(scope),
            };
        }
        match self.rng.weighted(&[3, 5, 3, 4, 2, 1]) {
            0 => Pat::node("u", vec![], vec![(vec![], self.pat(depth - 1, scope))]),
            1 => {
                let a = self.pat(depth - 1, scope);
                let b = self.pat(depth - 1, scope);
                Pat::node("b", vec![], vec![(vec![], a), (vec![], b)])
            }
            2 => {
                let mut names: Vec<S> = PAT_FREE.to_vec();
                names.extend(scope.iter().copied());
                let s0 = *self.rng.pick(&names);
                Pat::node("g", vec![s0], vec![(vec![], self.pat(depth - 1, scope))])
            }
            3 => {
                let x = self.next_bound;
                self.next_bound += 1;
                let mut sc = scope.to_vec();
                sc.push(x);
                Pat::node("lam", vec![], vec![(vec![x], self.pat(depth - 1, &sc))])
            }
            4 => {
                let x = self.next_bound;
                self.next_bound += 1;
                let mut sc = scope.to_vec();
                sc.push(x);
                let body = self.pat(depth - 1, &sc);
                let e = self.pat(depth - 1, scope);
                Pat::node("let", vec![], vec![(vec![x], body), (vec![], e)])
            }
            _ => {
                let x = self.next_bound;
                let y = self.next_bound + 1;
                self.next_bound += 2;
                let mut sc = scope.to_vec();
                sc.push(x);
                sc.push(y);
                Pat::node("lam2", vec![], vec![(vec![x, y], self.pat(depth - 1, &sc))])
            }
        }
    }
}

/// instantiates `p`; the `nth` (0-based) occurrence of variable `var` gets `other` instead
fn inst_with_override(p: &Pat, sub: &BTreeMap<u32, Tm>, var: u32, nth: usize, other: &Tm, seen: &mut usize) -> Tm {
    match p {
        Pat::Var(v) => {
            if *v == var {
                let k = *seen;
                *seen += 1;
                if k == nth {
                    return other.clone();
                }
            }
            sub[v].clone()
        }
        Pat::Node { op, pay, slots, kids } => Tm {
            op: *op,
            pay: *pay,
            slots: slots.clone(),
            kids: kids.iter().map(|(b, k)| Kid { binders: b.clone(), t: inst_with_override(k, sub, var, nth, other, seen) }).collect(),
        },
        Pat::Subst(..) => panic!("harness: subst pattern on the left"),
    }
}

fn count_var(p: &Pat, var: u32) -> usize {
    match p {
        Pat::Var(v) => (*v == var) as usize,
        Pat::Node { kids, .. } => kids.iter().map(|(_, k)| count_var(k, var)).sum(),
        Pat::Subst(a, b, c) => count_var(a, var) + count_var(b, var) + count_var(c, var),
    }
}

fn small_term(rng: &mut Rng, slots: &[S], depth: usize) -> Tm {
    if depth == 0 || rng.chance(1, 2) {
        return match rng.below(4) {
            0 => Tm::pay("k", 5 + rng.below(3) as u32),
            1 => Tm::leaf("p1", vec![*rng.pick(slots)]),
            2 => {
                let a = *rng.pick(slots);
                let b = *slots.iter().find(|x| **x != a).unwrap_or(&a);
                if a == b {
                    Tm::leaf("p1", vec![a])
                } else {
                    Tm::leaf("p2", vec![a, b])
                }
            }
            _ => {
                let a = *rng.pick(slots);
                Tm::node("g", vec![a], vec![(vec![], Tm::pay("k", 5))])
            }
        };
    }
    match rng.below(2) {
        0 => Tm::node("u", vec![], vec![(vec![], small_term(rng, slots, depth - 1))]),
        _ => {
            let a = small_term(rng, slots, depth - 1);
            let b = small_term(rng, slots, depth - 1);
            Tm::node("b", vec![], vec![(vec![], a), (vec![], b)])
        }
    }
}

impl Check for FireCheck {
    fn id(&self) -> &'static str {
        self.id
    }
    fn gen(&self, seed: u64, _tier: Tier) -> Run {
        let mut run = Run::new(self.id, seed);
        let mut rng = Rng::stream(seed, "workload");
        let mut g = PatGen { rng: &mut rng, nvars: 0, var_scope: Vec::new(), next_bound: BOUND_BASE };
        let depth = 1 + g.rng.below(3);
        let mut l = g.pat(depth, &[]);
        if matches!(l, Pat::Var(_)) {
            l = Pat::node("u", vec![], vec![(vec![], l)]);
        }
        let nvars = g.nvars;
        let next_bound = g.next_bound;
        let scopes = g.var_scope.clone();
        // (own stream) wide left side: the pattern sits next to leaves over 7-11 further pattern slots whose
        // names are in no particular order, half of the time below 1-4 extra binders whose slots the leaves
        // use: one match then binds 9-15 slots (the crate's small maps / sets change representation at 8-10)
        let mut wr = Rng::stream(seed, "wide-pattern");
        if self.id == "C04" && wr.chance(1, 9) {
            let nb = if wr.chance(1, 2) && next_bound <= 16 { 1 + wr.below(4) } else { 0 };
            let bound: Vec<S> = (0..nb as S).map(|i| 16 + i).collect();
            let mut names: Vec<S> = (40..40 + 7 + wr.below(5) as S - nb as S).collect();
            names.extend(bound.iter().copied());
            wr.shuffle(&mut names);
            let k1 = names.len().min(6);
            let a = Pat::node(&format!("p{k1}"), names[..k1].to_vec(), vec![]);
            let rest = &names[k1..];
            let mut w = Pat::node("b", vec![], vec![(vec![], a), (vec![], l.clone())]);
            if !rest.is_empty() {
                let c = Pat::node(&format!("p{}", rest.len()), rest.to_vec(), vec![]);
                w = if wr.chance(1, 2) { Pat::node("b", vec![], vec![(vec![], c), (vec![], w)]) } else { Pat::node("t", vec![], vec![(vec![], w), (vec![], c.clone()), (vec![], c)]) };
            }
            let mut i = 0;
            while i < bound.len() {
                if i + 1 < bound.len() && wr.chance(1, 2) {
                    w = Pat::node("lam2", vec![], vec![(vec![bound[i], bound[i + 1]], w)]);
                    i += 2;
                } else {
                    w = Pat::node("lam", vec![], vec![(vec![bound[i]], w)]);
                    i += 1;
                }
            }
            l = w;
            run.set("wide_pattern", 1);
        }
        {
            // (own stream) a fully symmetric four-slot child: the pattern sits next to the leaf (p4 $0 $1 $40 $41)
            // and two p2 leaves that pin its slots; the executor asserts S4 on the leaf (a 4-cycle and a
            // transposition), so the parent e-node has 24 group-compatible variants and the pattern's
            // orientation is one of them
            let mut sr = Rng::stream(seed, "sym4");
            if self.id == "C04" && run.get("wide_pattern") == 0 && sr.chance(1, 10) {
                let leaf = Pat::node("p4", vec![0, 1, 40, 41], vec![]);
                let pin1 = Pat::node("p2", vec![0, 41], vec![]);
                let pin2 = Pat::node("p2", vec![1, 40], vec![]);
                l = Pat::node("t", vec![], vec![(vec![], leaf), (vec![], pin1), (vec![], Pat::node("b", vec![], vec![(vec![], pin2), (vec![], l.clone())]))]);
                run.set("sym4", 1 + sr.below(3) as i64);
                run.set("sym4_perm", sr.below(24) as i64);
            }
            // (own stream) the left pattern is matched once (read-only) BEFORE the union that makes a child
            // symmetric: whatever the matcher remembers about an e-node must not outlive that union
            run.set("prematch", Rng::stream(seed, "prematch").chance(1, 3) as i64);
        }
        // right side over the same variables, respecting binder scopes
        let mut vars = Vec::new();
        l.vars(&mut vars);
        let wrap = |v: u32, inner: Pat| -> Pat {
            let mut p = inner;
            for x in scopes[v as usize].iter().rev() {
                p = Pat::node("lam", vec![], vec![(vec![*x], p)]);
            }
            p
        };
        let r = if vars.is_empty() {
            Pat::pay("k", 9)
        } else {
            let v = *rng.pick(&vars);
            match rng.below(4) {
                0 => wrap(v, Pat::Var(v)),
                1 => wrap(v, Pat::node("u", vec![], vec![(vec![], Pat::Var(v))])),
                2 => {
                    let w = *rng.pick(&vars);
                    Pat::node("b", vec![], vec![(vec![], wrap(v, Pat::Var(v))), (vec![], wrap(w, Pat::Var(w)))])
                }
                _ => {
                    // the right side introduces no slot of its own: only free slots of the left side
                    let lf = l.inst(&vars.iter().map(|v| (*v, Tm::pay("k", 0))).collect()).free_vec();
                    if lf.is_empty() {
                        wrap(v, Pat::Var(v))
                    } else {
                        wrap(v, Pat::node("g", vec![*rng.pick(&lf)], vec![(vec![], Pat::Var(v))]))
                    }
                }
            }
        };
        run.ops.push(Op::new("rule").s(&l.to_string()).s(&r.to_string()));
        // substitution
        let mut sub = Op::new("subst");
        for v in 0..nvars {
            let mut slots: Vec<S> = INST_SLOTS.to_vec();
            if rng.chance(1, 2) {
                slots.push(PAT_FREE[rng.below(2)]);
            }
            for x in &scopes[v as usize] {
                if rng.chance(2, 3) {
                    slots.push(*x);
                }
            }
            rng.shuffle(&mut slots);
            slots.truncate(3);
            let d = 1 + rng.below(2);
            sub = sub.t(small_term(&mut rng, &slots, d));
        }
        run.ops.push(sub);
        // how the instance is planted
        // 0 literal, 1 up to equality, 2 literal + symmetric child,
        // 3 repeated variable whose occurrences are different but (by an asserted symmetry) equal
        run.set("plant_mode", rng.below(4) as i64);
        run.set("root_extra", rng.below(3) as i64);
        run.set("plant_var", rng.below(nvars.max(1) as usize) as i64);
        run.set("rename_free", rng.below(3) as i64);
        run.set("distractors", rng.below(3) as i64);
        run.set("aux_rule", rng.chance(1, 3) as i64);
        run.set("crate_rewrite", rng.chance(1, 2) as i64);
        run.set("warm_rules", Rng::stream(seed, "warm").chance(1, 4) as i64);
        {
            let mut ps = Rng::stream(seed, "pat-slot-like-class");
            run.set("pat_slot_like_class", if ps.chance(1, 6) { 1 + ps.below(1000) as i64 } else { 0 });
        }
        // scale scenario (own stream): thousands of instances of one left side in one call
        let mut sr = Rng::stream(seed, "scale");
        if self.id == "C04" && sr.chance(1, 1500) {
            run.set("scale_n", 1200 + sr.below(5000) as i64);
            run.set("scale_shape", sr.below(3) as i64);
        }
        let mut f = Rng::stream(seed, "faults");
        if f.chance(1, 2) {
            run.set("hash_seed", (f.next() >> 1) as i64 | 1);
        }
        if f.chance(2, 5) {
            run.set("stride_max", *f.pick(&[1, 3, 17, 200]));
            run.set("stride_seed", (f.next() >> 1) as i64);
        }
        if f.chance(1, 4) {
            run.set("buggify_mask", 1 + f.below(7) as i64);
            run.set("buggify_seed", (f.next() >> 1) as i64);
        }
        if f.chance(3, 10) {
            run.set("naming", 1 + f.below(NAMING_KINDS as usize - 1) as i64);
        }
        run.set("probes", f.chance(1, 2) as i64);
        run
    }
    fn rule(&self) -> &'static str {
        if self.id == "C07R" {
            return "the C04 workload in the explanations build (a seeded rule over LS, a planted instance, literal or only up to equality through a plain union, or with a symmetric child); after apply_rewrites the equality of the left and the right instance is explained and the proof DAG re-checked by M_proof; explicit leaves must be instances of the rule (justification = rule name) or of an asserted union; non-trivial = the proof contains a leaf justified by the rule; distinct = distinct canonical key";
        }
        "a seeded left pattern over LS (depth 1-3, repeated variables only under identical binders, each bound slot bound once and not used free), a right pattern over its variables, a substitution of small terms, planted literally / only up to equality through a balanced union of a variable's term with another term over the same slots / with a symmetric child class, plus distractor terms; e-graphs with a redundant slot are skipped (counted); apply_rewrites once; oracle: lookup_rec_expr of the right instance succeeds and is eq to the left instance; non-trivial = the pattern has at least one variable and one operator and the instance was present before the rewrite; distinct = distinct canonical key"
    }
    fn fault_kinds(&self) -> &'static [&'static str] {
        &["K1_hash_order", "K2_fresh_stride", "K3_probes", "K4_buggify", "K5_client_schedule"]
    }
    fn budget(&self, tier: Tier) -> u64 {
        match tier {
            Tier::Quick => 40_000,
            Tier::Thorough => 300_000,
        }
    }
    fn exec(&self, run: &Run) -> Outcome {
        if run.get("scale_n") > 0 {
            return exec_fire_scale(run);
        }
        let mut out = Outcome::default();
        seam::apply(&run.knobs());
        let mut s: Sess<LS, ()> = Sess::new(EGraph::new(()), run.get("naming") as u32);
        if run.get("companion") != 0 {
            s.enable_companion();
        }
        let Some(rule) = run.ops.iter().find(|o| o.name == "rule") else { return out };
        let (Ok(l), Ok(r)) = (parse_pat(&rule.s[0]), parse_pat(rule.s.get(1).map(|x| x.as_str()).unwrap_or("k:0"))) else { return out };
        let mut vars = Vec::new();
        l.vars(&mut vars);
        let mut rvars = Vec::new();
        r.vars(&mut rvars);
        if rvars.iter().any(|v| !vars.contains(v)) || matches!(l, Pat::Var(_)) {
            return out;
        }
        let sub_terms: Vec<Tm> = run.ops.iter().find(|o| o.name == "subst").map(|o| o.t.clone()).unwrap_or_default();
        let mut sub: BTreeMap<u32, Tm> = BTreeMap::new();
        for v in &vars {
            match sub_terms.get(*v as usize) {
                Some(t) => {
                    sub.insert(*v, t.clone());
                }
                None => {
                    sub.insert(*v, Tm::pay("k", 5));
                }
            }
        }
        // renaming of the pattern's free slots (pairwise distinct)
        let rho: BTreeMap<S, S> = match run.get("rename_free").rem_euclid(3) {
            0 => BTreeMap::new(),
            1 => [(0, 1), (1, 0)].into_iter().collect(),
            _ => [(0, 30), (1, 31)].into_iter().collect(),
        };
        let li = l.inst(&sub).rename_keep_binders(&rho);
        let ri = r.inst(&sub).rename_keep_binders(&rho);
        // well-formedness of the planted instance: bound names must not be captured or escape
        {
            let fl = li.free();
            if fl.iter().any(|x| *x >= BOUND_BASE && *x < 20) || ri.free().iter().any(|x| *x >= BOUND_BASE && *x < 20) {
                out.discarded = Some("instance_out_of_scope".into());
                return out;
            }
        }
        let mode = run.get("plant_mode").rem_euclid(4);
        let pv = vars.get(run.get("plant_var").rem_euclid(vars.len().max(1) as i64) as usize).copied();
        let mut root_term: Tm = li.clone();
        // sym4 runs: the instance is planted with the arguments of the four-slot leaf permuted (the pattern's
        // own orientation is then represented only through the symmetry asserted afterwards)
        let sym4_leaf = Tm::leaf("p4", vec![0, 1, 40, 41]).rename_keep_binders(&rho);
        let sym4_planted = {
            let a = sym4_leaf.slots.clone();
            let k = run.get("sym4_perm").rem_euclid(24) as usize;
            let mut idx: Vec<usize> = vec![0, 1, 2, 3];
            let mut out: Vec<S> = Vec::new();
            let mut kk = k;
            for f in [6usize, 2, 1, 1] {
                let i = (kk / f).min(idx.len() - 1);
                kk %= f;
                out.push(a[idx.remove(i)]);
            }
            Tm::leaf("p4", out)
        };
        fn replace_subterm(t: &Tm, from: &Tm, to: &Tm) -> Tm {
            if t == from {
                return to.clone();
            }
            let mut t = t.clone();
            for k in t.kids.iter_mut() {
                k.t = replace_subterm(&k.t, from, to);
            }
            t
        }
        let orient = |t: &Tm| -> Tm { if run.get("sym4") != 0 { replace_subterm(t, &sym4_leaf, &sym4_planted) } else { t.clone() } };
        let plant = |s: &mut Sess<LS, ()>, root_term: &mut Tm| {
            // distractors first
            for d in 0..run.get("distractors").rem_euclid(3) {
                let t = Tm::node("b", vec![], vec![(vec![], Tm::leaf("p2", vec![20, 21])), (vec![], Tm::pay("k", d as u32))]);
                s.add_term(&t, false);
            }
            match (mode, pv) {
                (1, Some(v)) => {
                    // the instance exists only up to equality: insert L[tau'] and union(tau, tau')
                    let tau = sub[&v].clone();
                    let fs = tau.free_vec();
                    let tau2 = fs.iter().fold(Tm::pay("k", 8), |acc, x| Tm::node("g", vec![*x], vec![(vec![], acc)]));
                    let mut sub2 = sub.clone();
                    sub2.insert(v, tau2.clone());
                    let l2 = l.inst(&sub2).rename_keep_binders(&rho);
                    s.add_term(&orient(&l2), false);
                    *root_term = orient(&l2);
                    let a = tau.rename_keep_binders(&rho);
                    let b = tau2.rename_keep_binders(&rho);
                    s.union_terms(&a, &b, true, false);
                }
                (3, _) => {
                    // a variable that occurs twice and whose term has two free slots: the second
                    // occurrence is the term with those slots swapped, equal only by a symmetry
                    let cand = vars.iter().copied().find(|v| count_var(&l, *v) >= 2 && sub[v].free_vec().iter().filter(|x| **x >= 20 || **x < BOUND_BASE).count() >= 2);
                    match cand {
                        Some(v) => {
                            let tau = sub[&v].clone();
                            let fs: Vec<S> = tau.free_vec().into_iter().filter(|x| *x >= 20 || *x < BOUND_BASE).collect();
                            let m: BTreeMap<S, S> = [(fs[0], fs[1]), (fs[1], fs[0])].into_iter().collect();
                            let sw = tau.rename_keep_binders(&m);
                            let l3 = inst_with_override(&l, &sub, v, 1, &sw, &mut 0).rename_keep_binders(&rho);
                            s.add_term(&orient(&l3), false);
                            *root_term = orient(&l3);
                            let a = tau.rename_keep_binders(&rho);
                            let b = sw.rename_keep_binders(&rho);
                            if run.get("prematch") != 0 {
                                let pat = l.to_pattern::<LS>(&mut s.nm);
                                let _ = ematch_all(&s.eg, &pat);
                            }
                            s.union_terms(&a, &b, true, false);
                        }
                        None => {
                            s.add_term(&orient(&li), false);
                        }
                    }
                }
                (2, Some(v)) => {
                    s.add_term(&orient(&li), false);
                    // make a child class symmetric if the variable's term has two slots
                    let tau = sub[&v].rename_keep_binders(&rho);
                    let fs = tau.free_vec();
                    if fs.len() >= 2 {
                        let m: BTreeMap<S, S> = [(fs[0], fs[1]), (fs[1], fs[0])].into_iter().collect();
                        let sw = tau.rename_keep_binders(&m);
                        if run.get("prematch") != 0 {
                            let pat = l.to_pattern::<LS>(&mut s.nm);
                            let _ = ematch_all(&s.eg, &pat);
                        }
                        s.union_terms(&tau, &sw, true, false);
                    }
                }
                _ => {
                    s.add_term(&orient(&li), false);
                }
            }
            if run.get("sym4") != 0 && *root_term == li {
                *root_term = orient(&li);
            }
            if run.get("sym4") != 0 {
                // S4 on the four-slot leaf of the left side: a 4-cycle and a transposition (in one of three orders)
                let leaf = Tm::leaf("p4", vec![0, 1, 40, 41]).rename_keep_binders(&rho);
                let a = leaf.slots.clone();
                let cyc: BTreeMap<S, S> = [(a[0], a[1]), (a[1], a[2]), (a[2], a[3]), (a[3], a[0])].into_iter().collect();
                let tr: BTreeMap<S, S> = [(a[0], a[1]), (a[1], a[0])].into_iter().collect();
                if run.get("prematch") != 0 {
                    let pat = l.to_pattern::<LS>(&mut s.nm);
                    let _ = ematch_all(&s.eg, &pat);
                }
                match run.get("sym4") {
                    1 => {
                        s.union_terms(&leaf, &leaf.rename_keep_binders(&cyc), true, false);
                        s.union_terms(&leaf, &leaf.rename_keep_binders(&tr), true, false);
                    }
                    2 => {
                        s.union_terms(&leaf.rename_keep_binders(&tr), &leaf, true, false);
                        s.union_terms(&leaf.rename_keep_binders(&cyc), &leaf, true, false);
                    }
                    _ => {
                        let tr2: BTreeMap<S, S> = [(a[2], a[3]), (a[3], a[2])].into_iter().collect();
                        s.union_terms(&leaf, &leaf.rename_keep_binders(&tr2), true, false);
                        s.union_terms(&leaf, &leaf.rename_keep_binders(&cyc), true, false);
                    }
                }
            }
            // make the class of the instance bigger: balanced unions with other terms
            for e in 0..run.get("root_extra").rem_euclid(3) {
                let fs = root_term.free_vec();
                let other = fs.iter().fold(Tm::pay("k", 20 + e as u32), |acc, x| Tm::node("g", vec![*x], vec![(vec![], acc)]));
                s.union_terms(&*root_term, &other, true, false);
            }
            if run.get("probes") != 0 {
                run_probes(s, run.get("hash_seed"), 7);
            }
        };
        // a second e-graph planted in the same way: the rules are applied to it first, i.e. one Rewrite
        // value serves two e-graphs (rules are usually defined once and used for many e-graphs)
        let mut decoy: Option<Sess<LS, ()>> = None;
        if run.get("warm_rules") != 0 {
            let mut d: Sess<LS, ()> = Sess::new(EGraph::new(()), run.get("naming") as u32);
            let mut rt = li.clone();
            if catch_op(|| plant(&mut d, &mut rt)).is_ok() {
                decoy = Some(d);
            }
        }
        let planted = catch_op(|| plant(&mut s, &mut root_term));
        if planted.is_err() {
            out.discarded = Some("panic".into());
            return out;
        }
        out.ops_executed += 2;
        // scope: no class with a redundant slot
        let mut redundant = false;
        for id in s.eg.ids() {
            let cs = s.eg.slots(id);
            for n in s.eg.enodes(id) {
                if n.slots().iter().any(|x| !cs.contains(x)) {
                    redundant = true;
                }
            }
        }
        if redundant {
            out.discarded = Some("redundant_slot_out_of_scope".into());
            return out;
        }
        let lre = to_re::<LS>(&li, &mut s.nm);
        let Some(hl) = lookup_rec_expr(&lre, &s.eg) else {
            out.discarded = Some("instance_not_present".into());
            return out;
        };
        // the rule is written after the e-graph was built. Its slots are pattern-local names; in a sixth
        // of the runs one of its free slots is spelled exactly like a parameter slot of some class
        // (the user read the name off the e-graph) - it still stands for any slot.
        let (cl, cr): (Pattern<LS>, Pattern<LS>) = if run.get("pat_slot_like_class") != 0 {
            let mut nm2 = s.nm.clone();
            let mut class_slots: Vec<Slot> = Vec::new();
            for id in s.eg.ids() {
                class_slots.extend(s.eg.slots(id).iter().copied());
            }
            class_slots.sort();
            class_slots.dedup();
            let lf = l.inst(&vars.iter().map(|v| (*v, Tm::pay("k", 0))).collect()).free_vec();
            if !class_slots.is_empty() && !lf.is_empty() {
                let k = run.get("pat_slot_like_class") as usize;
                nm2.force(lf[k % lf.len()], class_slots[(k / 7) % class_slots.len()]);
                out.bump("pattern_slot_spelled_like_a_class_slot");
            }
            (l.to_pattern::<LS>(&mut nm2), r.to_pattern::<LS>(&mut nm2))
        } else {
            (l.to_pattern::<LS>(&mut s.nm), r.to_pattern::<LS>(&mut s.nm))
        };
        let (cl2, cr2) = (cl.clone(), cr.clone());
        let mut rules: Vec<Rewrite<LS, ()>> = Vec::new();
        #[allow(unused_mut)]
        let mut rule_pats: Vec<(Pat, Pat, String)> = vec![(l.clone(), r.clone(), "rule".to_string())];
        // optional auxiliary rule, applied in the same call BEFORE the rule under test: it rewrites
        // the planted variable's term to another term whose class is bigger, so that the class the
        // main rule's match refers to is merged away before the main rule's applier runs
        if run.get("aux_rule") != 0 {
            if let Some(v) = pv {
                let tau = sub[&v].rename_keep_binders(&rho);
                if tau.free().iter().all(|x| *x < BOUND_BASE || *x >= 20) {
                    let fs = tau.free_vec();
                    let tau2 = fs.iter().fold(Tm::pay("k", 4), |acc, x| Tm::node("g", vec![*x], vec![(vec![], acc)]));
                    let r2 = catch_op(|| {
                        s.add_term(&Tm::node("u", vec![], vec![(vec![], tau2.clone())]), false);
                        s.add_term(&Tm::node("b", vec![], vec![(vec![], tau2.clone()), (vec![], Tm::pay("k", 3))]), false);
                    });
                    if r2.is_err() {
                        out.discarded = Some("panic".into());
                        return out;
                    }
                    let al: Pattern<LS> = Pat::from_tm(&tau).to_pattern::<LS>(&mut s.nm);
                    let ar: Pattern<LS> = Pat::from_tm(&tau2).to_pattern::<LS>(&mut s.nm);
                    match catch_op(|| Rewrite::<LS, ()>::new("aux", &al.to_string(), &ar.to_string())) {
                        Ok(rw) => {
                            rules.push(rw);
                            rule_pats.push((Pat::from_tm(&tau), Pat::from_tm(&tau2), "aux".to_string()));
                            out.bump("aux_rule_used");
                        }
                        Err(_) => {
                            out.discarded = Some("aux_rule_unparsable".into());
                            return out;
                        }
                    }
                }
            }
        }
        if run.get("crate_rewrite") != 0 {
            // the crate's own Rewrite::new (string based searcher / applier)
            match catch_op(|| Rewrite::<LS, ()>::new("rule", &cl.to_string(), &cr.to_string())) {
                Ok(rw) => {
                    rules.push(rw);
                    out.bump("crate_rewrite_new_used");
                }
                Err(_) => {
                    out.discarded = Some("rule_unparsable".into());
                    return out;
                }
            }
        } else {
            let rw: Rewrite<LS, ()> = RewriteT {
                searcher: Box::new(move |eg: &EGraph<LS, ()>| ematch_all(eg, &cl)),
                applier: Box::new(move |substs: Vec<Subst>, eg: &mut EGraph<LS, ()>| {
                    for sb in substs {
                        eg.union_instantiations(&cl2, &cr2, &sb, Some("rule".to_string()));
                    }
                }),
            }
            .into();
            rules.push(rw);
        }
        // the instance must (still) be present right before the call
        let Some(hl) = lookup_rec_expr(&lre, &s.eg) else {
            out.discarded = Some("instance_not_present".into());
            return out;
        };
        if let Some(d) = decoy.as_mut() {
            if catch_op(|| apply_rewrites(&mut d.eg, &rules)).is_err() {
                out.discarded = Some("panic_in_rewrite".into());
                return out;
            }
            out.bump("rules_reused_across_egraphs");
        }
        if catch_op(|| apply_rewrites(&mut s.eg, &rules)).is_err() {
            out.discarded = Some("panic_in_rewrite".into());
            return out;
        }
        out.ops_executed += 1;
        let rre = to_re::<LS>(&ri, &mut s.nm);
        let res = catch_op(|| -> Option<Violation> {
            match lookup_rec_expr(&rre, &s.eg) {
                None => Some(viol("C04", "instance_fires", format!("rule {l} => {r}: the instance {li} was represented, but after apply_rewrites the right instance {ri} is not"), 0)),
                Some(hr) => {
                    if !s.eg.eq(&hl, &hr) {
                        Some(viol("C04", "instance_fires", format!("rule {l} => {r}: after apply_rewrites {ri} is represented but not equal to {li}"), 0))
                    } else {
                        None
                    }
                }
            }
        });
        match res {
            Err(_) => {
                out.discarded = Some("panic_in_query".into());
            }
            Ok(Some(v)) => out.violations.push(v),
            Ok(None) => out.bump("instances_fired"),
        }
        out.states.push(state_hash(&s.eg));
        #[cfg(feature = "explanations")]
        if self.id == "C07R" && out.violations.is_empty() && out.discarded.is_none() {
            let asserted: Vec<(Tm, Tm, String)> = s.eqs.iter().map(|(a, b)| (a.clone(), b.clone(), String::new())).collect();
            let rules = rule_pats.clone();
            let re1 = to_re::<LS>(&li, &mut s.nm);
            let re2 = to_re::<LS>(&ri, &mut s.nm);
            match { let _ph = crate::exec::phase("C07"); catch_op(|| s.eg.explain_equivalence(re1, re2)) } {
                Err(p) => {
                    out.violations.push(panic_violation("C07", "explain_returns", &p, 0));
                }
                Ok(proof) => {
                    let res = catch_op(|| super::explain::check_proof(&s.eg, &mut s.nm, &proof, &asserted, &rules, &(li.clone(), ri.clone())));
                    match res {
                        Err(p) => out.violations.push(panic_violation("C07", "proof_readable", &p, 0)),
                        Ok(Err((clause, m))) => out.violations.push(viol("C07", &clause, format!("rule {l} => {r}, explaining {li} = {ri}: {m}"), 0)),
                        Ok(Ok((nodes, rule_leaves))) => {
                            out.count("proof_nodes_checked", nodes);
                            out.count("rule_leaves_checked", rule_leaves);
                        }
                    }
                }
            }
        }
        finish_counters(&mut out, run);
        out.log_hash = s.log_hash;
        out.nontrivial = out.discarded.is_none() && !vars.is_empty() && (self.id != "C07R" || out.counters.get("rule_leaves_checked").copied().unwrap_or(0) > 0);
        out
    }
}


/// C04 at scale: N distinct instances of one left side, every one of them must fire in one call.
/// (The other scenario plants a single instance; limits on the number of matches or substitutions
/// handled per call do not show there.)
fn exec_fire_scale(run: &Run) -> Outcome {
    let mut out = Outcome::default();
    seam::apply(&run.knobs());
    let n = run.get("scale_n").clamp(1, 20_000) as u32;
    let shape = run.get("scale_shape").rem_euclid(3);
    let mut s: Sess<LS, ()> = Sess::new(EGraph::new(()), run.get("naming") as u32);
    // instance i: shape 0: (u k:i)   shape 1: (g $0 k:i)   shape 2: (b k:i (p1 $1))
    let left = |i: u32| -> Tm {
        let k = Tm::pay("k", 100 + i);
        match shape {
            0 => Tm::node("u", vec![], vec![(vec![], k)]),
            1 => Tm::node("g", vec![0], vec![(vec![], k)]),
            _ => Tm::node("b", vec![], vec![(vec![], k), (vec![], Tm::leaf("p1", vec![1]))]),
        }
    };
    let right = |i: u32| -> Tm {
        let k = Tm::pay("k", 100 + i);
        match shape {
            0 => Tm::node("b", vec![], vec![(vec![], k.clone()), (vec![], k)]),
            1 => Tm::node("b", vec![], vec![(vec![], Tm::leaf("p1", vec![0])), (vec![], k)]),
            _ => Tm::node("g", vec![1], vec![(vec![], k)]),
        }
    };
    let (l, r) = match shape {
        0 => ("(u ?0)", "(b ?0 ?0)"),
        1 => ("(g $0 ?0)", "(b (p1 $0) ?0)"),
        _ => ("(b ?0 (p1 $1))", "(g $1 ?0)"),
    };
    let (Ok(lp), Ok(rp)) = (parse_pat(l), parse_pat(r)) else { panic!("harness: scale patterns") };
    let built = catch_op(|| {
        for i in 0..n {
            let re = to_re::<LS>(&left(i), &mut s.nm);
            s.eg.add_expr(re);
        }
    });
    if built.is_err() {
        out.discarded = Some("panic".into());
        return out;
    }
    let cl: Pattern<LS> = lp.to_pattern::<LS>(&mut s.nm);
    let cr: Pattern<LS> = rp.to_pattern::<LS>(&mut s.nm);
    let rules: Vec<Rewrite<LS, ()>> = if run.get("crate_rewrite") != 0 {
        match catch_op(|| Rewrite::<LS, ()>::new("rule", &cl.to_string(), &cr.to_string())) {
            Ok(rw) => vec![rw],
            Err(_) => {
                out.discarded = Some("rule_unparsable".into());
                return out;
            }
        }
    } else {
        let (cl2, cr2, cl3) = (cl.clone(), cr.clone(), cl.clone());
        vec![RewriteT {
            searcher: Box::new(move |eg: &EGraph<LS, ()>| ematch_all(eg, &cl3)),
            applier: Box::new(move |substs: Vec<Subst>, eg: &mut EGraph<LS, ()>| {
                for sb in substs {
                    eg.union_instantiations(&cl2, &cr2, &sb, Some("rule".to_string()));
                }
            }),
        }
        .into()]
    };
    if catch_op(|| apply_rewrites(&mut s.eg, &rules)).is_err() {
        out.discarded = Some("panic_in_rewrite".into());
        return out;
    }
    out.ops_executed = 1;
    out.bump("scale_runs");
    let res = catch_op(|| -> Option<Violation> {
        for i in 0..n {
            let (li, ri) = (left(i), right(i));
            let lre = to_re::<LS>(&li, &mut s.nm);
            let rre = to_re::<LS>(&ri, &mut s.nm);
            let Some(hl) = lookup_rec_expr(&lre, &s.eg) else {
                return Some(viol("C04", "instance_fires", format!("scale: the inserted instance {li} is no longer represented"), 0));
            };
            match lookup_rec_expr(&rre, &s.eg) {
                None => return Some(viol("C04", "instance_fires", format!("rule {l} => {r} with {n} instances in one call: {li} was represented, but afterwards the right instance {ri} is not"), 0)),
                Some(hr) => {
                    if !s.eg.eq(&hl, &hr) {
                        return Some(viol("C04", "instance_fires", format!("rule {l} => {r} with {n} instances in one call: {ri} is represented but not equal to {li}"), 0));
                    }
                }
            }
        }
        None
    });
    match res {
        Err(_) => out.discarded = Some("panic_in_query".into()),
        Ok(Some(v)) => out.violations.push(v),
        Ok(None) => out.count("instances_fired", n as u64),
    }
    finish_counters(&mut out, run);
    out.log_hash = crate::rng::hash_str(&format!("scale/{}", s.eg.total_number_of_nodes()));
    out.nontrivial = out.discarded.is_none();
    out
}
