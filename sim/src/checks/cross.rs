//! C11 (equivariance under slot renaming) and C12 (independence of order and orientation):
//! the same abstract history is executed several times inside one run and the observable
//! answers are compared across executions.

use super::sesscc::{gen_sess_run, relative_renamings};
use super::{Check, Tier};
use crate::exec::seam;
use crate::langs::*;
use crate::rng::Rng;
use crate::run::*;
use crate::sess::*;
use crate::tm::*;
use slotted_egraphs::*;
use std::collections::BTreeMap;

pub struct CrossCheck {
    pub id: &'static str,
}

#[derive(Clone, Debug, PartialEq, Eq)]
pub struct Observed {
    pub eq_answers: Vec<bool>,
    pub live_classes: usize,
    /// per tracked term: kept slots (abstract names)
    pub kept: Vec<Vec<S>>,
    /// per tracked term: number of permutations of the kept slots that compare equal
    pub symmetries: Vec<usize>,
}

fn perms_of(v: &[S]) -> Vec<Vec<S>> {
    fn rec(v: &[S], cur: &mut Vec<S>, out: &mut Vec<Vec<S>>) {
        if cur.len() == v.len() {
            out.push(cur.clone());
            return;
        }
        for x in v {
            if !cur.contains(x) {
                cur.push(*x);
                rec(v, cur, out);
                cur.pop();
            }
        }
    }
    let mut out = Vec::new();
    rec(v, &mut Vec::new(), &mut out);
    out
}

/// queries: (i, j, rho) over the canonical list of tracked terms
pub type Query = (usize, usize, BTreeMap<S, S>);

pub fn make_queries(terms: &[Tm], rng: &mut Rng, max: usize) -> Vec<Query> {
    let mut qs: Vec<Query> = Vec::new();
    let n = terms.len();
    if n == 0 {
        return qs;
    }
    let mut pairs: Vec<(usize, usize)> = Vec::new();
    for i in 0..n {
        for j in i..n {
            pairs.push((i, j));
        }
    }
    rng.shuffle(&mut pairs);
    for (i, j) in pairs {
        let fs = terms[i].free_vec();
        let ft = terms[j].free_vec();
        let fresh: Vec<S> = (60..60 + ft.len() as S).collect();
        let mut rens = relative_renamings(&ft, &fs, &fresh);
        rng.shuffle(&mut rens);
        rens.truncate(6);
        for r in rens {
            qs.push((i, j, r));
        }
        if qs.len() >= max {
            break;
        }
    }
    qs
}

/// executes the ops on a new session and observes; Err on a library panic
pub fn execute_and_observe(ops: &[Op], run: &Run, naming: u32, hash_seed: u64, terms: &[Tm], queries: &[Query]) -> Result<Observed, crate::exec::PanicInfo> {
    if run.get("analysis") != 0 {
        execute_and_observe_n(EGraph::new(crate::analysis::SimAn { p: 3, modify: run.get("analysis") == 2 }), ops, run, naming, hash_seed, terms, queries)
    } else {
        execute_and_observe_n(EGraph::new(()), ops, run, naming, hash_seed, terms, queries)
    }
}

fn execute_and_observe_n<N: Analysis<LS> + Clone>(eg: EGraph<LS, N>, ops: &[Op], run: &Run, naming: u32, hash_seed: u64, terms: &[Tm], queries: &[Query]) -> Result<Observed, crate::exec::PanicInfo> {
    seam::set_hash_seed(hash_seed);
    let mut s: Sess<LS, N> = Sess::new(eg, naming);
        if run.get("companion") != 0 {
            s.enable_companion();
        }
    for op in ops {
        catch_op(|| exec_sess_op(&mut s, op, run))?;
    }
    // make sure every term of the canonical list is present (it is: all are subterms of op terms)
    catch_op(|| {
        let mut handles: Vec<AppliedId> = Vec::new();
        for t in terms {
            let h = match s.by_exact.get(t) {
                Some(i) => s.tracked[*i].h.clone(),
                None => s.add_term(t, false),
            };
            handles.push(h);
        }
        let mut eq_answers = Vec::new();
        for (i, j, rho) in queries {
            let m = s.nm.slotmap(rho);
            let hj = handles[*j].apply_slotmap_partial(&m);
            eq_answers.push(s.eg.eq(&handles[*i], &hj));
        }
        let mut kept = Vec::new();
        let mut symmetries = Vec::new();
        for (i, _t) in terms.iter().enumerate() {
            let f = s.eg.find_applied_id(&handles[i]);
            let mut k: Vec<S> = f.slots().iter().map(|x| s.nm.unslot(*x)).collect();
            k.sort();
            let mut count = 0;
            if k.len() <= 4 {
                for p in perms_of(&k) {
                    let rho: BTreeMap<S, S> = k.iter().copied().zip(p.iter().copied()).collect();
                    let m = s.nm.slotmap(&rho);
                    if s.eg.eq(&f, &f.apply_slotmap_partial(&m)) {
                        count += 1;
                    }
                }
            }
            kept.push(k);
            symmetries.push(count);
        }
        Observed { eq_answers, live_classes: s.eg.progress().number_of_live_classes, kept, symmetries }
    })
}

fn diff(a: &Observed, b: &Observed, terms: &[Tm], queries: &[Query]) -> Option<(String, String)> {
    if a.live_classes != b.live_classes {
        return Some(("live_classes".into(), format!("{} vs {} live classes", a.live_classes, b.live_classes)));
    }
    for (k, (x, y)) in a.eq_answers.iter().zip(b.eq_answers.iter()).enumerate() {
        if x != y {
            let (i, j, rho) = &queries[k];
            let mut fr = 3000;
            return Some(("eq_answers".into(), format!("eq({}, {}) is {x} in one execution and {y} in the other", terms[*i], terms[*j].rename(rho, &mut fr))));
        }
    }
    for i in 0..terms.len() {
        if a.kept[i].len() != b.kept[i].len() {
            return Some(("slot_count".into(), format!("{}: kept slots {:?} vs {:?}", terms[i], a.kept[i], b.kept[i])));
        }
        if a.symmetries[i] != b.symmetries[i] {
            return Some(("symmetry_count".into(), format!("{}: {} vs {} symmetries", terms[i], a.symmetries[i], b.symmetries[i])));
        }
    }
    None
}

impl Check for CrossCheck {
    fn id(&self) -> &'static str {
        self.id
    }

    fn gen(&self, seed: u64, tier: Tier) -> Run {
        let mut run = gen_sess_run(self.id, seed, tier, false);
        let mut f = Rng::stream(seed, "schedule");
        if self.id == "C12" {
            // the naming drawn by gen_sess_run (3 runs in 10: one of the ten non-default kinds) is kept: all
            // schedules of a run use it, and with the lazy kinds (8, 10) the order of the steps decides which
            // slot is spelled when
            run.set("schedules", 3);
            run.set("schedule_seed", (f.next() >> 1) as i64);
        } else {
            run.set("naming", 0);
            run.set("naming_b", 1 + f.below(NAMING_KINDS as usize - 1) as i64);
        }
        run
    }

    fn rule(&self) -> &'static str {
        match self.id {
            "C12" => "a seeded set of insertions and equations over LS executed in 4 schedules (given order; 3 seeded permutations of all steps with random orientation flips of each union, each under another hash order); observable answers (sampled eq-matrix over all tracked terms and relative renamings, live classes, per-term slot count and symmetry count) must agree; non-trivial = at least one union changed the e-graph and at least one permuted schedule differs from the given order; distinct = distinct canonical key",
            _ => "a seeded history over LS executed twice with the same knobs but different slot namings (numeric ascending vs. reversed numeric / textual / mixed / scrambled names); observable answers (sampled eq-matrix, live classes, per-term kept slot sets, symmetry counts) must agree under the renaming; non-trivial = at least one union changed the e-graph and a term with at least two slots exists; distinct = distinct canonical key",
        }
    }

    fn fault_kinds(&self) -> &'static [&'static str] {
        &["K1_hash_order", "K2_fresh_stride", "K4_buggify", "K5_client_schedule"]
    }

    fn budget(&self, tier: Tier) -> u64 {
        match tier {
            Tier::Quick => 80_000,
            Tier::Thorough => 250_000,
        }
    }

    fn exec(&self, run: &Run) -> Outcome {
        let mut out = Outcome::default();
        seam::apply(&run.knobs());
        let prop = self.id;
        // canonical list of terms: all subterms of all op terms, first occurrence order
        let mut terms: Vec<Tm> = Vec::new();
        for t in all_terms(&run.ops) {
            for s in t.subterms_bottom_up() {
                if !terms.contains(&s) {
                    terms.push(s);
                }
            }
        }
        {
            // the names of the run under each naming it uses: distinct names must be distinct slots
            let mut names = std::collections::BTreeSet::new();
            for t in &terms {
                t.all_names(&mut names);
            }
            let names: Vec<S> = names.into_iter().collect();
            for kind in [run.get("naming"), run.get("naming_b")] {
                if let Some((a, b, x)) = Naming::collision(kind.rem_euclid(NAMING_KINDS as i64) as u32, &names) {
                    out.violations.push(Violation {
                        property: prop.into(),
                        clause: "renaming_is_injective".into(),
                        kind: "mismatch".into(),
                        sig: "renaming_is_injective".into(),
                        triggers: vec![],
                        detail: format!("naming {kind}: the distinct names of the abstract slots ${a} and ${b} denote one slot {x:?}: the injective renaming of the history is not injective any more"),
                        at_op: 0,
                    });
                    return out;
                }
            }
        }
        let mut qrng = Rng::stream(run.get("oracle_seed") as u64, "oracle-sampling");
        let queries = make_queries(&terms, &mut qrng, 150);
        let base_hash = run.get("hash_seed") as u64;
        let base = match execute_and_observe(&run.ops, run, run.get("naming") as u32, base_hash, &terms, &queries) {
            Ok(o) => o,
            Err(_) => {
                out.discarded = Some("panic".into());
                return out;
            }
        };
        out.ops_executed += run.ops.len() as u64;
        let mut differs = false;
        if prop == "C12" {
            let mut srng = Rng::stream(run.get("schedule_seed") as u64, "schedule");
            for k in 0..run.get("schedules").clamp(1, 6) {
                let mut ops: Vec<Op> = run.ops.clone();
                srng.shuffle(&mut ops);
                for o in ops.iter_mut() {
                    if o.name == "union" && srng.chance(1, 2) {
                        o.t.swap(0, 1);
                    }
                }
                if ops != run.ops {
                    differs = true;
                }
                let hs = if k % 2 == 0 { base_hash } else { crate::rng::mix(base_hash ^ (k as u64 + 1)) };
                match execute_and_observe(&ops, run, run.get("naming") as u32, hs, &terms, &queries) {
                    Ok(o) => {
                        out.ops_executed += ops.len() as u64;
                        out.bump("schedules_compared");
                        if let Some((clause, detail)) = diff(&base, &o, &terms, &queries) {
                            out.violations.push(Violation {
                                property: "C12".into(),
                                clause,
                                kind: "mismatch".into(),
                                sig: "order_dependence".into(),
                                triggers: vec![],
                                detail: format!("{detail}; other schedule: {:?}", ops.iter().map(|o| o.short()).collect::<Vec<_>>()),
                                at_op: 0,
                            });
                            break;
                        }
                    }
                    Err(_) => {
                        out.discarded = Some("panic".into());
                        return out;
                    }
                }
            }
        } else {
            let nb = run.get("naming_b").rem_euclid(NAMING_KINDS as i64) as u32;
            differs = nb != run.get("naming") as u32;
            match execute_and_observe(&run.ops, run, nb, base_hash, &terms, &queries) {
                Ok(o) => {
                    out.ops_executed += run.ops.len() as u64;
                    out.bump("namings_compared");
                    let mut d = diff(&base, &o, &terms, &queries);
                    if d.is_none() {
                        // returned invocations are the originals renamed: kept slot SETS agree
                        for i in 0..terms.len() {
                            if base.kept[i] != o.kept[i] {
                                d = Some(("returned_slots".into(), format!("{}: kept slots {:?} under naming {} but {:?} under naming {}", terms[i], base.kept[i], run.get("naming"), o.kept[i], nb)));
                                break;
                            }
                        }
                    }
                    if let Some((clause, detail)) = d {
                        out.violations.push(Violation {
                            property: "C11".into(),
                            clause,
                            kind: "mismatch".into(),
                            sig: "naming_dependence".into(),
                            triggers: vec![],
                            detail: format!("{detail} (namings {} vs {nb})", run.get("naming")),
                            at_op: 0,
                        });
                    }
                }
                Err(_) => {
                    out.discarded = Some("panic".into());
                    return out;
                }
            }
        }
        for (name, c) in seam::take_probes() {
            out.count(&format!("probe:{name}"), c);
        }
        if base_hash != 0 {
            out.bump("K1_hash_order");
        }
        if out.counters.get("probe:fresh_stride_taken").copied().unwrap_or(0) > 0 {
            out.bump("K2_fresh_stride");
        }
        if seam::buggify_fired(1) + seam::buggify_fired(2) > 0 {
            out.bump("K4_buggify");
        }
        if differs {
            out.bump("K5_client_schedule");
        }
        let changed = out.counters.get("probe:move_to").copied().unwrap_or(0) + out.counters.get("probe:shrink_slots").copied().unwrap_or(0) + out.counters.get("probe:union_new_symmetry").copied().unwrap_or(0) > 0;
        let has_multi = terms.iter().any(|t| t.free().len() >= 2);
        out.states.push(crate::rng::mix(base.live_classes as u64 ^ (base.symmetries.iter().sum::<usize>() as u64) << 20 ^ (base.kept.iter().map(|k| k.len()).sum::<usize>() as u64) << 40));
        out.log_hash = crate::rng::hash_str(&format!("{:?}", base));
        out.nontrivial = out.discarded.is_none() && changed && differs && (prop == "C12" || has_multi);
        out
    }
}
