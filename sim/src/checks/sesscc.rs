//! C01 (soundness), C02 (completeness), C08 (no panic / consistent) over sess histories,
//! decided against M_cc.

use super::{Check, Tier};
use crate::exec::seam;
use crate::langs::*;
use crate::oracle::cc::Cc;
use crate::rng::{self, Rng};
use crate::run::*;
use crate::sess::*;
use crate::tm::*;
use slotted_egraphs::*;
use std::collections::{BTreeMap, HashMap};

pub struct SessCc {
    pub id: &'static str,
}

pub const UNIVERSE_CAP_QUICK: usize = 25_000;
pub const UNIVERSE_CAP_THOROUGH: usize = 120_000;

pub fn pool_size(ops: &[Op]) -> usize {
    (3 * max_free(ops) + 1).max(max_name(ops)).max(2)
}

/// shared generator for sess-based checks
pub fn gen_sess_run(check: &str, seed: u64, tier: Tier, with_probes: bool) -> Run {
    let mut run = Run::new(check, seed);
    let mut w = Rng::stream(seed, "workload");
    let cap = if tier == Tier::Quick { UNIVERSE_CAP_QUICK } else { UNIVERSE_CAP_THOROUGH };
    let mut tries = 0;
    // wide mode (own stream, so that the other runs stay what they were): terms with 5-12 free slots,
    // beyond the inline capacities of the crate's small sets (8) and slot maps (10). Only for checks
    // whose oracle does not need M_cc.
    let mut wr = Rng::stream(seed, "wide");
    if matches!(check, "C08" | "C11" | "C12") && wr.chance(1, 10) {
        let alphabet = 6 + wr.below(7);
        let p = GenParams {
            alphabet,
            max_free: alphabet,
            max_depth: 2 + wr.below(2),
            max_ops: *wr.pick(&[2, 3, 4, 6]),
            max_leaf: 6,
            binders: wr.chance(1, 2),
        };
        run.ops = gen_history(&mut w, &p, with_probes);
        run.set("wide", 1);
        tries = 1000;
    }
    loop {
        if tries >= 1000 {
            break;
        }
        tries += 1;
        let alphabet = 2 + w.weighted(&[3, 5, 3]);
        let big = tier == Tier::Thorough && w.chance(1, 8);
        let p = GenParams {
            alphabet: if big { alphabet.max(4) } else { alphabet },
            max_free: if big { 4 } else { alphabet.min(3) },
            max_depth: 1 + w.weighted(&[2, 5, 4]),
            max_ops: if tier == Tier::Quick { *w.pick(&[2, 3, 4, 6, 8, 12]) } else { *w.pick(&[2, 3, 5, 8, 12, 16]) },
            max_leaf: if big { 4 } else { 3.max(alphabet.min(4)) },
            binders: w.chance(3, 4),
        };
        let mut ops = gen_history(&mut w, &p, with_probes);
        if w.chance(1, 4) {
            insert_symmetry_bias(&mut ops, &mut w);
        }
        {
            // (own stream) two parallel contexts over two different terms that are united later
            let mut pr = Rng::stream(seed ^ tries as u64, "parallel-contexts");
            if pr.chance(1, 8) {
                insert_parallel_contexts(&mut ops, &mut pr);
            }
        }
        {
            // (own stream, rare) a node whose three children are invocations of one fully symmetric
            // four-slot class: 24^3 group-compatible variants of one e-node
            let mut br = Rng::stream(seed ^ tries as u64, "big-variant-product");
            if matches!(check, "C01" | "C02" | "C08" | "C09" | "C12") && br.chance(1, 300) {
                insert_big_variant_product(&mut ops, &mut br);
            }
        }
        let n = pool_size(&ops);
        if n < 40 && Cc::universe_size(n, &all_terms(&ops)) <= cap {
            run.ops = ops;
            break;
        }
        if tries > 30 {
            run.ops = vec![Op::new("add").t(Tm::leaf("p1", vec![0]))];
            break;
        }
    }
    let mut f = Rng::stream(seed, "faults");
    // swarm: each fault kind enabled on a subset of runs
    if f.chance(1, 2) {
        run.set("hash_seed", (f.next() >> 1) as i64 | 1);
    }
    if f.chance(2, 5) {
        run.set("stride_max", *f.pick(&[1, 3, 17, 200]));
        run.set("stride_seed", (f.next() >> 1) as i64);
    }
    if f.chance(1, 4) {
        run.set("buggify_mask", 1 + f.below(7) as i64);
        run.set("buggify_seed", (f.next() >> 1) as i64);
    }
    if with_probes && f.chance(1, 2) {
        run.set("probes", 1);
    }
    if f.chance(3, 10) {
        run.set("naming", 1 + f.below(NAMING_KINDS as usize - 1) as i64);
    }
    if f.chance(1, 2) {
        run.set("old_handles", 1);
    }
    if f.chance(1, 4) {
        run.set("nodewise", 1);
    }
    run.set("oracle_seed", (f.next() >> 1) as i64);
    {
        // 0: no Analysis (two thirds of the runs); 1: the simulator's analysis; 2: the same with its
        // modify hook for LS (b(x, 0) = x: unions from inside rebuild, also inside add)
        let mut ar = Rng::stream(seed, "analysis");
        let a = [0, 0, 0, 0, 1, 2][ar.below(6)];
        run.set("analysis", a);
        if a == 2 && run.get("wide") == 0 {
            // material for the hook: a g-node around an existing term (a slot of the term or another one)
            let terms = all_terms(&run.ops);
            if !terms.is_empty() {
                let x = ar.pick(&terms).clone();
                let mut cands: Vec<S> = x.free_vec();
                cands.push(0);
                cands.push(1);
                let sl = *ar.pick(&cands);
                let t = Tm::node("g", vec![sl], vec![(vec![], x)]);
                let pos = ar.below(run.ops.len() + 1);
                run.ops.insert(pos, Op::new("add").t(t));
            }
        }
    }
    if tier == Tier::Thorough && f.chance(1, 2) {
        run.set("checkpoint_every_union", 1);
    }
    boundary_prelude(&mut run, seed);
    {
        // (own stream) one run in seven has a companion e-graph in the same thread (sess.rs)
        let mut cr = Rng::stream(seed, "companion");
        if cr.chance(1, 7) {
            run.set("companion", 1);
        }
    }
    run
}

/// Naming kind 10 spells every new slot as the name of the very next fresh slot. Whether that matters
/// depends on what draws the next fresh slot: it has to be a binder of a node whose children exist
/// already, with the new name free below it. Half of the kind-10 runs start with exactly that:
/// `(p2 $0 b)`, then `(lam [b] (p2 b $1))` - the class of p2 exists, `$1` is spelled last, the new
/// lam node renames its binder next. (own stream; wide runs excepted: their leaves differ)
pub fn boundary_prelude(run: &mut Run, seed: u64) {
    let mut br = Rng::stream(seed, "boundary-prelude");
    if run.get("naming") != 10 || run.get("wide") != 0 || !br.chance(1, 2) {
        return;
    }
    let names: Vec<S> = {
        let mut set = std::collections::BTreeSet::new();
        for t in all_terms(&run.ops) {
            t.all_names(&mut set);
        }
        set.into_iter().collect()
    };
    // b: a name used as a binder name by the generator (first name above the user alphabet), or 2
    let user_max = all_terms(&run.ops).iter().flat_map(|t| t.free_vec()).max().unwrap_or(1).max(1);
    let b = names.iter().copied().find(|x| *x > user_max).unwrap_or(user_max + 1);
    // (the lam node has to be new, so the first term is the bare leaf)
    run.ops.insert(0, Op::new("add").t(Tm::node("lam", vec![], vec![(vec![b], Tm::leaf("p2", vec![b, 1]))])));
    run.ops.insert(0, Op::new("add").t(Tm::leaf("p2", vec![0, b])));
    run.set("boundary_prelude", 1);
}

pub fn state_hash<L: SimLang, N: Analysis<L>>(eg: &EGraph<L, N>) -> u64 {
    let mut v: Vec<(usize, usize)> = Vec::new();
    for id in eg.ids() {
        v.push((eg.slots(id).len(), eg.enodes(id).len()));
    }
    v.sort();
    let p = eg.progress();
    let mut h = rng::mix(p.number_of_live_classes as u64 ^ ((p.sum_of_symmetries as u64) << 20) ^ ((p.sum_of_slots as u64) << 40));
    for (a, b) in v {
        h = rng::mix(h ^ ((a as u64) << 32 | b as u64));
    }
    h
}

/// all injective partial maps from `ft` into `fs`, the rest sent to distinct names from `fresh`
pub fn relative_renamings(ft: &[S], fs: &[S], fresh: &[S]) -> Vec<BTreeMap<S, S>> {
    fn rec(i: usize, ft: &[S], fs: &[S], fresh: &[S], used: &mut Vec<S>, nf: usize, cur: &mut BTreeMap<S, S>, out: &mut Vec<BTreeMap<S, S>>) {
        if i == ft.len() {
            out.push(cur.clone());
            return;
        }
        for s in fs {
            if !used.contains(s) {
                used.push(*s);
                cur.insert(ft[i], *s);
                rec(i + 1, ft, fs, fresh, used, nf, cur, out);
                cur.remove(&ft[i]);
                used.pop();
            }
        }
        if nf < fresh.len() {
            cur.insert(ft[i], fresh[nf]);
            rec(i + 1, ft, fs, fresh, used, nf + 1, cur, out);
            cur.remove(&ft[i]);
        }
    }
    let mut out = Vec::new();
    if ft.len() > 4 || fs.len() > 4 {
        // wide terms: the enumeration is exponential; a fixed handful of renamings instead
        // (names kept where shared, positional, rotated, reversed, all fresh)
        let fresh_or = |k: usize, used: &Vec<S>| -> Option<S> { fresh.iter().copied().filter(|x| !used.contains(x)).nth(k) };
        let mut cands: Vec<Vec<Option<S>>> = Vec::new();
        cands.push(ft.iter().map(|x| if fs.contains(x) { Some(*x) } else { None }).collect());
        cands.push((0..ft.len()).map(|i| fs.get(i).copied()).collect());
        if !fs.is_empty() {
            cands.push((0..ft.len()).map(|i| if ft.len() <= fs.len() { Some(fs[(i + 1) % fs.len()]) } else { fs.get(i + 1).copied() }).collect());
            cands.push((0..ft.len()).map(|i| if i < fs.len() { Some(fs[fs.len() - 1 - i]) } else { None }).collect());
            // one transposition of the first two shared positions
            if ft.len() >= 2 && fs.len() >= 2 {
                let mut c: Vec<Option<S>> = (0..ft.len()).map(|i| fs.get(i).copied()).collect();
                c.swap(0, 1);
                cands.push(c);
            }
        }
        cands.push(vec![None; ft.len()]);
        for c in cands {
            let mut used: Vec<S> = c.iter().flatten().copied().collect();
            let mut m = BTreeMap::new();
            let mut ok = true;
            let mut k = 0;
            // injective?
            let mut seen: Vec<S> = Vec::new();
            for y in c.iter().flatten() {
                if seen.contains(y) {
                    ok = false;
                }
                seen.push(*y);
            }
            if !ok {
                continue;
            }
            for (i, y) in c.iter().enumerate() {
                match y {
                    Some(y) => {
                        m.insert(ft[i], *y);
                    }
                    None => match fresh_or(k, &used) {
                        Some(f) => {
                            m.insert(ft[i], f);
                            used.push(f);
                            let _ = &mut k;
                        }
                        None => {
                            ok = false;
                        }
                    },
                }
            }
            if ok && !out.contains(&m) {
                out.push(m);
            }
        }
        return out;
    }
    rec(0, ft, fs, fresh, &mut Vec::new(), 0, &mut BTreeMap::new(), &mut out);
    out
}

/// A leaf `p4` with the full symmetric group on its four slots (a 4-cycle and a transposition are
/// asserted) and two `t` nodes over three permuted invocations of it that differ only by permutations:
/// the e-node has 24^3 group-compatible variants and the two terms must end up in one class.
pub fn insert_big_variant_product(ops: &mut Vec<Op>, w: &mut Rng) {
    let base: Vec<S> = vec![0, 1, 2, 3];
    let leaf = |v: &Vec<S>| Tm::leaf("p4", v.clone());
    let perm = |w: &mut Rng| -> Vec<S> {
        let mut v = base.clone();
        w.shuffle(&mut v);
        v
    };
    let mk = |w: &mut Rng| Tm::node("t", vec![], vec![(vec![], leaf(&perm(w))), (vec![], leaf(&perm(w))), (vec![], leaf(&perm(w)))]);
    let (t1, t2) = (mk(w), mk(w));
    let new_ops = vec![
        Op::new("union").t(leaf(&base)).t(leaf(&vec![1, 2, 3, 0])).i(0),
        Op::new("union").t(leaf(&base)).t(leaf(&vec![1, 0, 2, 3])).i(0),
        Op::new("add").t(t1),
        Op::new("add").t(t2),
    ];
    // keep the history short: these operations are expensive
    ops.truncate(3);
    let mut pos = w.below(ops.len() + 1);
    let late = w.chance(1, 2);
    for (k, o) in new_ops.into_iter().enumerate() {
        if late && k >= 2 {
            // the parents exist before the symmetries are known
            ops.insert(0, o);
            pos += 1;
        } else {
            ops.insert(pos.min(ops.len()), o);
            pos += 1;
        }
    }
}

/// Two parallel contexts `C[A]` and `C[B]` over two different two-slot terms A and B, where C also holds an
/// asymmetric sibling over the same slots; later A = B is asserted (same slots on both sides) and one
/// of them is made symmetric. Which of the two classes dies, whether the survivor is symmetric at that
/// moment, and in which orientation the parents were stored all depend on the order of the steps.
pub fn insert_parallel_contexts(ops: &mut Vec<Op>, w: &mut Rng) {
    let (x, y): (S, S) = (0, 1);
    let p1 = |a: S| Tm::leaf("p1", vec![a]);
    let swap: BTreeMap<S, S> = [(x, y), (y, x)].into_iter().collect();
    let a0 = Tm::leaf("p2", vec![x, y]);
    let cands: Vec<Tm> = vec![
        Tm::leaf("p3", vec![x, y, x]),
        Tm::node("g", vec![x], vec![(vec![], p1(y))]),
        Tm::node("b", vec![], vec![(vec![], p1(x)), (vec![], p1(y))]),
        Tm::node("b", vec![], vec![(vec![], p1(x)), (vec![], Tm::node("u", vec![], vec![(vec![], p1(y))]))]),
    ];
    let bi = w.below(cands.len());
    let mut si = w.below(cands.len());
    if si == bi {
        si = (si + 1) % cands.len();
    }
    let b0 = cands[bi].clone();
    let sib = cands[si].clone();
    let shape = w.below(3);
    let ctx = |t: Tm| -> Tm {
        let n2 = |l: Tm, r: Tm| Tm::node("b", vec![], vec![(vec![], l), (vec![], r)]);
        match shape {
            0 => n2(n2(t, sib.clone()), sib.clone()),
            1 => n2(sib.clone(), n2(sib.clone(), t)),
            _ => Tm::node("t", vec![], vec![(vec![], t), (vec![], sib.clone()), (vec![], Tm::pay("k", 1))]),
        }
    };
    let a_in = if w.chance(1, 2) { a0.rename_keep_binders(&swap) } else { a0.clone() };
    let b_in = if w.chance(1, 3) { b0.rename_keep_binders(&swap) } else { b0.clone() };
    let sym_of = if w.chance(1, 2) { a0.clone() } else { b0.clone() };
    let mut new_ops = vec![
        Op::new("add").t(ctx(a_in)),
        Op::new("add").t(ctx(b_in)),
        Op::new("union").t(a0.clone()).t(b0.clone()).i(w.below(2) as i64),
        Op::new("union").t(sym_of.clone()).t(sym_of.rename_keep_binders(&swap)).i(w.below(2) as i64),
    ];
    if w.chance(1, 2) {
        new_ops.swap(2, 3);
    }
    if w.chance(1, 3) {
        let (l, r) = (new_ops[2].t[0].clone(), new_ops[2].t[1].clone());
        new_ops[2].t = vec![r, l];
    }
    // parents first (that is the order which needs the upward merge), at random places of the history
    let mut pos = w.below(ops.len() + 1);
    for o in new_ops {
        ops.insert(pos, o);
        pos = (pos + 1 + w.below(2)).min(ops.len());
    }
}

/// Inserts, at random points of a history, several independent symmetries on one multi-slot leaf
/// (S3 / dihedral / products of disjoint transpositions), optionally an equation that makes one
/// slot of that leaf redundant, and a parent that uses the leaf twice.
pub fn insert_symmetry_bias(ops: &mut Vec<Op>, w: &mut Rng) {
    // several independent symmetries on one multi-slot leaf (S3 / dihedral groups), asserted
    // at random points of the history, plus a parent that uses the leaf twice
    let k = *w.pick(&[3usize, 3, 4]);
    let base: Vec<S> = (0..k as S).collect();
    let leaf = Tm::leaf(&format!("p{k}"), base.clone());
    for _ in 0..w.range(2, 3) {
        let mut v = base.clone();
        let i = w.below(k);
        let j = (i + 1 + w.below(k - 1)) % k;
        v.swap(i, j);
        if k == 4 && w.chance(1, 2) {
            // a product of two disjoint transpositions: its restriction to a subset of the
            // slots is a symmetry of its own
            let rest: Vec<usize> = (0..4).filter(|x| *x != i && *x != j).collect();
            v.swap(rest[0], rest[1]);
        }
        let other = Tm::leaf(&format!("p{k}"), v);
        let pos = w.below(ops.len() + 1);
        ops.insert(pos, Op::new("union").t(leaf.clone()).t(other).i(w.below(2) as i64));
    }
    if w.chance(1, 3) {
        // an equation that makes one slot of the symmetric leaf itself redundant
        let mut sub: Vec<S> = base.clone();
        sub.remove(w.below(k));
        let small = Tm::leaf(&format!("p{}", k - 1), sub);
        let pos = w.below(ops.len() + 1);
        ops.insert(pos, Op::new("union").t(leaf.clone()).t(small).i(w.below(2) as i64));
    }
    if w.chance(1, 3) {
        // a second class over the same slots with a symmetry of its own, merged with the leaf at
        // some point: two non-trivial groups, neither containing the other, meet in one union
        let rest: Vec<S> = base[1..].to_vec();
        let inner = Tm::leaf(&format!("p{}", k - 1), rest.clone());
        let t = match w.below(if k == 3 { 3 } else { 2 }) {
            0 => Tm::node("g", vec![base[0]], vec![(vec![], inner)]),
            1 => Tm::node("b", vec![], vec![(vec![], Tm::leaf("p1", vec![base[0]])), (vec![], inner)]),
            _ => {
                let mut all = vec![900 as S];
                all.extend(base.iter().copied());
                Tm::node("lam", vec![], vec![(vec![900], Tm::leaf(&format!("p{}", k + 1), all))])
            }
        };
        let i = w.below(k);
        let j = (i + 1 + w.below(k - 1)) % k;
        let sw: BTreeMap<S, S> = [(base[i], base[j]), (base[j], base[i])].into_iter().collect();
        let t2 = t.rename_keep_binders(&sw);
        let pos = w.below(ops.len() + 1);
        ops.insert(pos, Op::new("union").t(t.clone()).t(t2).i(w.below(2) as i64));
        let pos = w.below(ops.len() + 1);
        ops.insert(pos, Op::new("union").t(leaf.clone()).t(t).i(w.below(2) as i64));
    }
    {
        // (own stream) parents that pin one slot of the symmetric leaf by a slot of their own, before
        // or after the child (g / gr), in two orientations that the symmetry makes equal or not
        let mut pr = Rng::stream(w.next(), "pinning-parents");
        if pr.chance(1, 2) {
            let name = if pr.chance(1, 2) { "gr" } else { "g" };
            for _ in 0..pr.range(1, 2) {
                let mut v = base.clone();
                pr.shuffle(&mut v);
                let pin = *pr.pick(&base);
                let t = Tm::node(name, vec![pin], vec![(vec![], Tm::leaf(&format!("p{k}"), v))]);
                let pos = pr.below(ops.len() + 1);
                ops.insert(pos, Op::new("add").t(t));
            }
        }
    }
    if w.chance(1, 2) {
        let mut v = base.clone();
        v.swap(0, k - 1);
        let t = Tm::node("b", vec![], vec![(vec![], leaf.clone()), (vec![], Tm::leaf(&format!("p{k}"), v))]);
        let pos = w.below(ops.len() + 1);
        ops.insert(pos, Op::new("add").t(t.clone()));
        if w.chance(1, 2) {
            // ... and an equation that makes one of its slots redundant
            let sub: Vec<S> = base.iter().copied().take(k - 1).collect();
            let small = Tm::leaf(&format!("p{}", k - 1), sub);
            let pos = w.below(ops.len() + 1);
            ops.insert(pos, Op::new("union").t(t).t(small).i(w.below(2) as i64));
        }
    }
}

pub struct CcCtx {
    pub cc: Cc,
    pub tracked: Vec<Tm>,
    pub eqs: Vec<(Tm, Tm)>,
    /// the run's Analysis has the modify hook `g(s, x) = x`: the oracle asserts that equation for every
    /// tracked (sub)term `g(s, t)`
    pub unit_schema: bool,
}

impl CcCtx {
    pub fn new(n: usize) -> CcCtx {
        CcCtx { cc: Cc::new(n), tracked: Vec::new(), eqs: Vec::new(), unit_schema: false }
    }
    /// closes the oracle (including the equations the modify hook stands for)
    pub fn close(&mut self) {
        self.cc.close();
        if !self.unit_schema {
            return;
        }
        // `g(s, x) = x` for every tracked (sub)term
        let mut new: Vec<(Tm, Tm)> = Vec::new();
        for t in &self.tracked {
            for sub in t.subterms() {
                if sub.name() == "g" && sub.kids.len() == 1 {
                    let pair = (sub.clone(), sub.kids[0].t.clone());
                    if self.cc.is_tracked(&pair.0) && self.cc.is_tracked(&pair.1) && !self.eqs.contains(&pair) && !new.contains(&pair) {
                        new.push(pair);
                    }
                }
            }
        }
        if !new.is_empty() {
            for (a, b) in new {
                self.assert_eq(&a, &b);
            }
            self.cc.close();
        }
    }
    pub fn track(&mut self, t: &Tm) {
        self.cc.track(t);
        self.tracked.push(t.clone());
    }
    pub fn assert_eq(&mut self, a: &Tm, b: &Tm) {
        self.cc.assert_eq(a, b);
        self.eqs.push((a.clone(), b.clone()));
    }
    /// the same theory over a larger pool (C01 escalation)
    pub fn rebuilt(&self, n: usize) -> Cc {
        let mut cc = Cc::new(n);
        for t in &self.tracked {
            cc.track(t);
        }
        for (a, b) in &self.eqs {
            cc.assert_eq(a, b);
        }
        cc.close();
        cc
    }
}

fn mk_violation(prop: &str, clause: &str, detail: String, at_op: usize) -> Violation {
    Violation {
        property: prop.into(),
        clause: clause.into(),
        kind: "mismatch".into(),
        sig: clause.into(),
        triggers: vec![],
        detail,
        at_op,
    }
}

/// Compares the e-graph's equality relation and slot sets with M_cc.
/// `c01` / `c02`: which direction's clauses are evaluated.
pub fn compare_with_oracle<L: SimLang, N: Analysis<L>>(
    s: &mut Sess<L, N>,
    ctx: &mut CcCtx,
    orng: &mut Rng,
    out: &mut Outcome,
    c01: bool,
    c02: bool,
    at_op: usize,
) -> Vec<Violation> {
    let mut viol: Vec<Violation> = Vec::new();
    ctx.close();
    let n = ctx.cc.n;
    let nt = s.tracked.len();

    // C01 escalation helper
    let confirm_unequal = |ctx: &CcCtx, a: &Tm, b: &Tm, out: &mut Outcome| -> bool {
        for extra in [2usize, 4] {
            let n2 = ctx.cc.n + extra;
            if n2 >= 60 || Cc::universe_size(n2, &ctx.tracked) > 400_000 {
                out.bump("escalation_skipped_too_big");
                return true;
            }
            let big = ctx.rebuilt(n2);
            if big.equal(a, b) {
                out.bump("pool_escalation");
                return false;
            }
        }
        true
    };

    // A. slot sets
    for i in 0..nt {
        let tm = s.tracked[i].tm.clone();
        let kept = s.kept_slots(i);
        let nonred = ctx.cc.nonredundant(&tm);
        for x in tm.free_vec() {
            let k = kept.contains(&x);
            let nr = nonred.contains(&x);
            if k && !nr && c02 {
                out.bump("c02_slot_queries");
                viol.push(mk_violation(
                    "C02",
                    "redundant_slot_kept",
                    format!("{tm}: slot ${x} is redundant per M_cc but kept by find_applied_id (kept {kept:?})"),
                    at_op,
                ));
            }
            if !k && nr && c01 {
                // confirm with bigger pool: redundancy = equality with a renamed copy
                let free = tm.free();
                let y = (0..n as S).find(|y| !free.contains(y)).unwrap();
                let mut m = BTreeMap::new();
                m.insert(x, y);
                let mut fr = 2000;
                let t2 = tm.rename(&m, &mut fr);
                if confirm_unequal(ctx, &tm, &t2, out) {
                    viol.push(mk_violation(
                        "C01",
                        "needed_slot_dropped",
                        format!("{tm}: slot ${x} dropped by the e-graph (kept {kept:?}) but M_cc says the term depends on it"),
                        at_op,
                    ));
                }
            }
        }
        out.bump("slot_set_comparisons");
    }
    if !viol.is_empty() {
        return viol;
    }

    // B. positives enumerated from the oracle (completeness)
    if c02 {
        let classes = ctx.cc.class_map();
        for i in 0..nt {
            let tm = s.tracked[i].tm.clone();
            let mut insts = ctx.cc.instances_equal_to(&tm, &classes);
            // sample
            if insts.len() > 12 {
                orng.shuffle(&mut insts);
                insts.truncate(12);
            }
            let hi = s.tracked[i].h.clone();
            for inst in insts {
                let Some(hj) = s.handle_of(&inst) else { continue };
                let refl = inst.alpha_eq(&tm);
                let q = s.eg.eq(&hi, &hj);
                if refl {
                    out.bump("reflexive_queries");
                } else {
                    out.bump("positive_queries");
                }
                if !q {
                    viol.push(mk_violation(
                        "C02",
                        "implied_equality_missing",
                        format!("M_cc derives {tm} = {inst} but eq({hi:?}, {hj:?}) is false"),
                        at_op,
                    ));
                    return viol;
                }
            }
        }
    }

    // C. pairs in the same e-class, all relative renamings (soundness + completeness)
    let mut groups: HashMap<Id, Vec<usize>> = HashMap::new();
    let mut group_order: Vec<Id> = Vec::new();
    for i in 0..nt {
        let h = s.tracked[i].h.clone();
        let id = s.eg.find_applied_id(&h).id;
        if !groups.contains_key(&id) {
            group_order.push(id);
        }
        groups.entry(id).or_default().push(i);
    }
    let mut pairs: Vec<(usize, usize)> = Vec::new();
    for id in &group_order {
        let g = &groups[id];
        for a in 0..g.len() {
            for b in a..g.len() {
                pairs.push((g[a], g[b]));
            }
        }
    }
    if pairs.len() > 60 {
        orng.shuffle(&mut pairs);
        pairs.truncate(60);
    }
    // a few cross-class pairs as well (expected unequal by the e-graph; checks completeness)
    for _ in 0..nt.min(6) {
        let a = orng.below(nt);
        let b = orng.below(nt);
        pairs.push((a, b));
    }
    for (i, j) in pairs {
        let ti = s.tracked[i].tm.clone();
        let tj = s.tracked[j].tm.clone();
        let fs = ti.free_vec();
        let ft = tj.free_vec();
        let fresh: Vec<S> = (0..n as S).filter(|x| !fs.contains(x)).take(ft.len()).collect();
        let mut rens = relative_renamings(&ft, &fs, &fresh);
        if rens.len() > 48 {
            orng.shuffle(&mut rens);
            rens.truncate(48);
        }
        let hi = s.tracked[i].h.clone();
        for rho in rens {
            let hj = s.handle_inst(j, &rho);
            let mut fr = 3000;
            let inst = tj.rename(&rho, &mut fr);
            let q = s.eg.eq(&hi, &hj);
            let e = ctx.cc.equal(&ti, &inst);
            if e {
                out.bump("positive_queries");
            } else {
                out.bump("negative_queries");
            }
            if q && !e && c01 {
                if confirm_unequal(ctx, &ti, &inst, out) {
                    let clause = if i == j { "underivable_symmetry" } else { "underivable_equality" };
                    viol.push(mk_violation(
                        "C01",
                        clause,
                        format!("eq({hi:?}, {hj:?}) is true but M_cc (pool {n}, escalated) does not derive {ti} = {inst}"),
                        at_op,
                    ));
                    return viol;
                }
            }
            if !q && e && c02 {
                viol.push(mk_violation(
                    "C02",
                    "implied_equality_missing",
                    format!("M_cc derives {ti} = {inst} but eq({hi:?}, {hj:?}) is false"),
                    at_op,
                ));
                return viol;
            }
        }
    }
    viol
}

impl Check for SessCc {
    fn id(&self) -> &'static str {
        self.id
    }

    fn gen(&self, seed: u64, tier: Tier) -> Run {
        gen_sess_run(self.id, seed, tier, true)
    }

    fn rule(&self) -> &'static str {
        match self.id {
            "C08" => "seeded histories of add/union/probe over LS (leaves with 1-4 slots, binders, constants), each under a sampled hash order, fresh stride, buggify mask, probe schedule, naming and handle-age; a run is non-trivial if at least one union changed the e-graph; distinct = distinct canonical key (trace modulo slot renaming + knobs)",
            _ => "seeded histories of add/union/probe over LS, each under sampled hash order, fresh stride, buggify, probes, naming, handle age; compared with the ground nominal congruence closure M_cc; non-trivial = at least one union changed the e-graph and the oracle answered at least one non-reflexive positive and one negative query; distinct = distinct canonical key (trace modulo slot renaming + knobs)",
        }
    }

    fn fault_kinds(&self) -> &'static [&'static str] {
        &["K1_hash_order", "K2_fresh_stride", "K3_probes", "K4_buggify", "K5_client_schedule"]
    }

    fn budget(&self, tier: Tier) -> u64 {
        match (self.id, tier) {
            ("C08", Tier::Quick) => 60_000,
            ("C08", Tier::Thorough) => 600_000,
            (_, Tier::Quick) => 60_000,
            (_, Tier::Thorough) => 400_000,
        }
    }

    fn exec(&self, run: &Run) -> Outcome {
        // a third of the runs carry the simulator's analysis (min size / depth / height): worklist
        // entries then come in two kinds (analysis-only and full) and data changes re-queue parents
        if run.get("analysis") != 0 {
            self.exec_with(run, EGraph::new(crate::analysis::SimAn { p: 3, modify: run.get("analysis") == 2 }))
        } else {
            self.exec_with(run, EGraph::new(()))
        }
    }
}

impl SessCc {
    fn exec_with<N: Analysis<LS> + Clone>(&self, run: &Run, eg: EGraph<LS, N>) -> Outcome {
        let mut out = Outcome::default();
        let c01 = self.id == "C01";
        let c02 = self.id == "C02";
        let c08 = self.id == "C08";
        seam::apply(&run.knobs());
        let mut s: Sess<LS, N> = Sess::new(eg, run.get("naming") as u32);
        if run.get("companion") != 0 {
            s.enable_companion();
        }
        let n = pool_size(&run.ops);
        let mut ctx = CcCtx::new(n);
        ctx.unit_schema = run.get("analysis") == 2;
        let mut orng = Rng::stream(run.get("oracle_seed") as u64, "oracle-sampling");
        let thorough_checkpoints = run.get("checkpoint_every_union") != 0;
        let mut any_change = false;
        let nops = run.ops.len();

        for (k, op) in run.ops.iter().enumerate() {
            s.cur_op = k;
            let before = s.eg.progress();
            let r = catch_op(|| exec_sess_op(&mut s, op, run));
            out.ops_executed += 1;
            if let Err(p) = r {
                if p.msg.starts_with("harness:") {
                    panic!("{}", p.msg);
                }
                if c08 {
                    out.violations.push(panic_violation("C08", "no_panic", &p, k));
                } else {
                    out.discarded = Some("panic".into());
                }
                break;
            }
            let after = s.eg.progress();
            if before != after && op.name == "union" {
                any_change = true;
            }
            // oracle bookkeeping (C08 has no use for the oracle; wide runs would not fit it)
            match if c08 { "" } else { op.name.as_str() } {
                "add" => ctx.track(&op.t[0]),
                "union" => {
                    ctx.track(&op.t[0]);
                    ctx.track(&op.t[1]);
                    ctx.assert_eq(&op.t[0], &op.t[1]);
                }
                _ => {}
            }
            if c08 {
                match catch_op(|| c08_structure(&mut s)) {
                    Err(p) => {
                        out.violations.push(panic_violation("C08", "check", &p, k));
                        break;
                    }
                    Ok(Err((clause, detail))) => {
                        out.violations.push(mk_violation("C08", &clause, detail, k));
                        break;
                    }
                    Ok(Ok(())) => {}
                }
                out.states.push(state_hash(&s.eg));
            } else {
                let last = k + 1 == nops;
                let checkpoint = if c02 { op.name == "union" || last } else { last || (thorough_checkpoints && op.name == "union") };
                if checkpoint {
                    let r = catch_op(|| compare_with_oracle(&mut s, &mut ctx, &mut orng, &mut out, c01, c02, k));
                    match r {
                        Err(p) => {
                            if p.msg.starts_with("harness:") || p.is_harness() {
                                panic!("harness panic: {} at {}", p.msg, p.loc);
                            }
                            // a panic inside eq/find during queries is C08's business
                            out.discarded = Some("panic_in_query".into());
                            break;
                        }
                        Ok(v) => {
                            if !v.is_empty() {
                                out.violations.extend(v);
                                break;
                            }
                        }
                    }
                    out.states.push(state_hash(&s.eg));
                }
            }
        }
        // C02, end of the history: a tracked term inserted once more (literally, or with its free slots
        // rotated and its binders renamed) is an inserted term equal to the tracked one: the new handle has
        // to compare equal to the (renamed) old one
        if c02 && out.violations.is_empty() && out.discarded.is_none() && !s.tracked.is_empty() {
            let r = catch_op(|| {
                let nt = s.tracked.len();
                let mut order: Vec<usize> = (0..nt).collect();
                orng.shuffle(&mut order);
                order.truncate(16);
                for i in order {
                    let tm = s.tracked[i].tm.clone();
                    let free = tm.free_vec();
                    let mut rho: BTreeMap<S, S> = free.iter().map(|x| (*x, *x)).collect();
                    if free.len() >= 2 && orng.chance(1, 2) {
                        for k in 0..free.len() {
                            rho.insert(free[k], free[(k + 1) % free.len()]);
                        }
                    }
                    let mut fr = 5000;
                    // (rename gives every binder a new name)
                    let inst = if rho.iter().any(|(a, b)| a != b) || orng.chance(1, 2) { tm.rename(&rho, &mut fr) } else { tm.clone() };
                    let expected = s.handle_inst(i, &rho);
                    let got = s.re_add(&inst);
                    if !s.eg.eq(&expected, &got) {
                        return Some(format!("{inst} inserted again gives {got:?}, which does not compare equal to the handle {expected:?} of the tracked term {tm} (renamed alike)"));
                    }
                }
                None
            });
            match r {
                Ok(Some(d)) => out.violations.push(mk_violation("C02", "reinserted_term_equal", d, nops)),
                Ok(None) => out.bump("reinsertions_checked"),
                Err(_) => out.discarded = Some("panic_in_query".into()),
            }
        }
        // fault accounting: what actually fired
        for (name, c) in seam::take_probes() {
            out.count(&format!("probe:{name}"), c);
        }
        let knobs = run.knobs();
        let pops_with_choice = out.counters.get("probe:rebuild_pop_with_choice").copied().unwrap_or(0);
        if knobs.hash_seed != 0 && pops_with_choice > 0 {
            out.bump("K1_hash_order");
        }
        if out.counters.get("probe:fresh_stride_taken").copied().unwrap_or(0) > 0 {
            out.bump("K2_fresh_stride");
        }
        if run.get("probes") != 0 && run.ops.iter().any(|o| o.name == "probe") {
            out.bump("K3_probes");
        }
        if seam::buggify_fired(1) + seam::buggify_fired(2) > 0 {
            out.bump("K4_buggify");
        }
        out.count("K4_compression_skipped", seam::buggify_fired(1));
        out.count("K4_fastpath_skipped", seam::buggify_fired(2));
        if run.get("old_handles") != 0 || run.get("nodewise") != 0 || run.get("naming") != 0 {
            out.bump("K5_client_schedule");
        }
        out.count("rebuild_ticks", seam::ticks());
        out.count("oracle_elems", ctx.cc.num_elems() as u64);
        out.log_hash = s.log_hash;
        let pos = out.counters.get("positive_queries").copied().unwrap_or(0);
        let neg = out.counters.get("negative_queries").copied().unwrap_or(0);
        out.nontrivial = out.discarded.is_none() && any_change && (c08 || (pos > 0 && neg > 0));
        out
        }
}
