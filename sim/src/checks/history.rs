//! C13: equalities are never lost, old handles stay usable, slot sets only shrink, the progress
//! measure moves only in its documented direction. A history checker over long mixed histories.

use super::sesscc::{relative_renamings, state_hash};
use super::{Check, Tier};
use crate::exec::seam;
use crate::langs::*;
use crate::rng::Rng;
use crate::run::*;
use crate::sess::*;
use crate::tm::*;
use slotted_egraphs::*;

pub struct HistoryCheck;

fn viol(clause: &str, detail: String, at: usize) -> Violation {
    Violation { property: "C13".into(), clause: clause.into(), kind: "mismatch".into(), sig: clause.into(), triggers: vec![], detail, at_op: at }
}

pub fn gen_long_history(check: &str, seed: u64, tier: Tier) -> Run {
    let mut run = Run::new(check, seed);
    let mut w = Rng::stream(seed, "workload");
    let alphabet = 2 + w.weighted(&[2, 4, 4]);
    let mut p = GenParams {
        alphabet,
        max_free: alphabet.min(if w.chance(1, 4) { 4 } else { 3 }),
        max_depth: 1 + w.weighted(&[2, 5, 4]),
        max_ops: if tier == Tier::Quick { *w.pick(&[4, 8, 12, 20, 25]) } else { *w.pick(&[6, 12, 20, 30, 40]) },
        max_leaf: 4.min(alphabet.max(3)),
        binders: w.chance(3, 4),
    };
    // wide mode (own stream): terms with 5-12 free slots, see gen_sess_run
    let mut wr = Rng::stream(seed, "wide");
    if matches!(check, "C13" | "C06") && wr.chance(1, 10) {
        let alphabet = 6 + wr.below(7);
        p = GenParams { alphabet, max_free: alphabet, max_depth: 2 + wr.below(2), max_ops: *wr.pick(&[3, 5, 8, 12]), max_leaf: 6, binders: wr.chance(1, 2) };
        run.set("wide", 1);
    }
    run.ops = gen_history(&mut w, &p, true);
    if w.chance(1, 4) {
        super::sesscc::insert_symmetry_bias(&mut run.ops, &mut w);
    }
    let mut f = Rng::stream(seed, "faults");
    if f.chance(1, 2) {
        run.set("hash_seed", (f.next() >> 1) as i64 | 1);
    }
    if f.chance(2, 5) {
        run.set("stride_max", *f.pick(&[1, 3, 17, 200]));
        run.set("stride_seed", (f.next() >> 1) as i64);
    }
    if f.chance(1, 3) {
        run.set("buggify_mask", 1 + f.below(7) as i64);
        run.set("buggify_seed", (f.next() >> 1) as i64);
    }
    if f.chance(2, 3) {
        run.set("probes", 1);
    }
    if f.chance(3, 10) {
        run.set("naming", 1 + f.below(NAMING_KINDS as usize - 1) as i64);
    }
    if f.chance(1, 2) {
        run.set("old_handles", 1);
    }
    if f.chance(1, 4) {
        run.set("nodewise", 1);
    }
    run.set("oracle_seed", (f.next() >> 1) as i64);
    if check == "C13" {
        run.set("analysis", [0, 0, 0, 0, 1, 2][Rng::stream(seed, "analysis").below(6)]);
    }
    super::sesscc::boundary_prelude(&mut run, seed);
    // (own stream) one run in seven has a companion e-graph in the same thread (sess.rs)
    if Rng::stream(seed, "companion").chance(1, 7) {
        run.set("companion", 1);
    }
    run
}

impl Check for HistoryCheck {
    fn id(&self) -> &'static str {
        "C13"
    }
    fn gen(&self, seed: u64, tier: Tier) -> Run {
        gen_long_history("C13", seed, tier)
    }
    fn rule(&self) -> &'static str {
        "long seeded histories (up to 25 quick / 40 thorough operations) of add/union/probe over LS under sampled hash order, stride, buggify (skipped path compression), probes, naming, handle age; after every operation all handles and equal pairs recorded at earlier points are re-queried; non-trivial = at least two unions changed the e-graph and at least one recorded equal pair was re-checked after a later change; distinct = distinct canonical key"
    }
    fn fault_kinds(&self) -> &'static [&'static str] {
        &["K1_hash_order", "K2_fresh_stride", "K3_probes", "K4_buggify", "K5_client_schedule"]
    }
    fn budget(&self, tier: Tier) -> u64 {
        match tier {
            Tier::Quick => 70_000,
            Tier::Thorough => 300_000,
        }
    }

    fn exec(&self, run: &Run) -> Outcome {
        // a third of the runs carry the simulator's analysis (min size / depth / height): worklist
        // entries then come in two kinds (analysis-only and full) and data changes re-queue parents
        if run.get("analysis") != 0 {
            self.exec_with(run, EGraph::new(crate::analysis::SimAn { p: 3, modify: run.get("analysis") == 2 }))
        } else {
            self.exec_with(run, EGraph::new(()))
        }
    }
}

impl HistoryCheck {
    fn exec_with<N: Analysis<LS> + Clone>(&self, run: &Run, eg: EGraph<LS, N>) -> Outcome {
        let mut out = Outcome::default();
        seam::apply(&run.knobs());
        let mut s: Sess<LS, N> = Sess::new(eg, run.get("naming") as u32);
        if run.get("companion") != 0 {
            s.enable_companion();
        }
        let mut orng = Rng::stream(run.get("oracle_seed") as u64, "oracle-sampling");
        // recorded history
        let mut equal_pairs: Vec<(AppliedId, AppliedId, usize, String)> = Vec::new();
        let mut slot_sets: Vec<Vec<S>> = Vec::new();
        let mut changes = 0u64;
        let mut rechecked_after_change = false;
        let mut prev = s.eg.progress();

        'ops: for (k, op) in run.ops.iter().enumerate() {
            s.cur_op = k;
            let r = catch_op(|| exec_sess_op(&mut s, op, run));
            out.ops_executed += 1;
            if let Err(p) = r {
                if p.msg.starts_with("harness:") {
                    panic!("{}", p.msg);
                }
                out.discarded = Some("panic".into());
                break;
            }
            let now = s.eg.progress();
            let changed = now != prev;
            // progress moves only in the documented direction
            let ok = if now.number_of_classes != prev.number_of_classes {
                now.number_of_classes > prev.number_of_classes
            } else if now.number_of_live_classes != prev.number_of_live_classes {
                now.number_of_live_classes < prev.number_of_live_classes
            } else if now.sum_of_slots != prev.sum_of_slots {
                now.sum_of_slots < prev.sum_of_slots
            } else {
                now.sum_of_symmetries >= prev.sum_of_symmetries
            };
            if !ok {
                out.violations.push(viol(
                    "progress_direction",
                    format!(
                        "progress went from ({}, {}, {}, {}) to ({}, {}, {}, {}) at {}",
                        prev.number_of_classes, prev.number_of_live_classes, prev.sum_of_slots, prev.sum_of_symmetries,
                        now.number_of_classes, now.number_of_live_classes, now.sum_of_slots, now.sum_of_symmetries,
                        op.short()
                    ),
                    k,
                ));
                break;
            }
            if changed && op.name == "union" {
                changes += 1;
            }
            prev = now;

            // re-query the recorded history
            let q = catch_op(|| -> Option<Violation> {
                for (a, b, at, what) in &equal_pairs {
                    if !s.eg.eq(a, b) {
                        return Some(viol("equality_lost", format!("{what} compared equal after op {at} but not after op {k} ({a:?} vs {b:?})"), k));
                    }
                }
                for i in 0..s.tracked.len() {
                    let h = s.tracked[i].h.clone();
                    let f = s.eg.find_applied_id(&h);
                    if !s.eg.is_alive(f.id) {
                        return Some(viol("old_handle_unusable", format!("find({h:?}) = {f:?} is dead"), k));
                    }
                    if !s.eg.eq(&h, &h) {
                        return Some(viol("old_handle_unusable", format!("eq({h:?}, itself) is false"), k));
                    }
                    if !s.eg.eq(&h, &f) {
                        return Some(viol("old_handle_unusable", format!("{h:?} is not equal to its canonical form {f:?}"), k));
                    }
                    let kept = s.kept_slots(i);
                    if i < slot_sets.len() {
                        if !kept.iter().all(|x| slot_sets[i].contains(x)) {
                            return Some(viol("slots_only_shrink", format!("{}: slots were {:?}, now {:?}", s.tracked[i].tm, slot_sets[i], kept), k));
                        }
                        slot_sets[i] = kept;
                    } else {
                        slot_sets.push(kept);
                    }
                }
                None
            });
            match q {
                Err(p) => {
                    if p.is_harness() {
                        panic!("harness panic: {} at {}", p.msg, p.loc);
                    }
                    out.violations.push(panic_violation("C13", "old_handle_unusable", &p, k));
                    break 'ops;
                }
                Ok(Some(v)) => {
                    out.violations.push(v);
                    break 'ops;
                }
                Ok(None) => {}
            }
            // old handles can be extracted from (every 4th step and at the end)
            if (k % 4 == 3 || k + 1 == run.ops.len()) && !s.tracked.is_empty() {
                let _ph = crate::exec::phase("C13");
                let ex = catch_op(|| -> Option<Violation> {
                    let ext = Extractor::<LS, AstSize>::new(&s.eg, AstSize);
                    for i in 0..s.tracked.len() {
                        let h = s.tracked[i].h.clone();
                        let re = ext.extract(&h, &s.eg);
                        match lookup_rec_expr(&re, &s.eg) {
                            None => return Some(viol("old_handle_unusable", format!("the term extracted from the old handle {h:?} ({re:?}) is not represented"), k)),
                            Some(l) => {
                                if !s.eg.eq(&l, &h) {
                                    return Some(viol("old_handle_unusable", format!("the term extracted from the old handle {h:?} ({re:?}) is {l:?}, not equal to the handle"), k));
                                }
                            }
                        }
                    }
                    None
                });
                match ex {
                    Err(p) => {
                        if p.is_harness() {
                            panic!("harness panic: {} at {}", p.msg, p.loc);
                        }
                        out.violations.push(panic_violation("C13", "old_handle_unusable", &p, k));
                        break 'ops;
                    }
                    Ok(Some(v)) => {
                        out.violations.push(v);
                        break 'ops;
                    }
                    Ok(None) => out.count("old_handles_extracted", s.tracked.len() as u64),
                }
            }
            out.count("recorded_pairs_rechecked", equal_pairs.len() as u64);
            if changed && !equal_pairs.is_empty() {
                rechecked_after_change = true;
            }

            // record new equal pairs (sampled)
            let nt = s.tracked.len();
            if nt > 0 && equal_pairs.len() < 600 {
                let rec = catch_op(|| {
                    let mut newp = Vec::new();
                    // every symmetry of every tracked term that holds now (recorded once)
                    for i in 0..nt {
                        if s.tracked[i].at_op + 1 < k && !orng.chance(1, 4) {
                            continue;
                        }
                        let ti = s.tracked[i].tm.clone();
                        let hi = s.tracked[i].h.clone();
                        let fs = ti.free_vec();
                        if fs.len() < 2 || fs.len() > 4 {
                            continue;
                        }
                        for rho in relative_renamings(&fs, &fs, &[]) {
                            if rho.iter().all(|(a, b)| a == b) {
                                continue;
                            }
                            let hj = s.handle_inst(i, &rho);
                            if s.eg.eq(&hi, &hj) {
                                let mut fr = 3000;
                                newp.push((hi.clone(), hj, k, format!("{} = {}", ti, ti.rename(&rho, &mut fr))));
                            }
                        }
                    }
                    for _ in 0..6 {
                        let i = orng.below(nt);
                        let j = orng.below(nt);
                        let hi = s.tracked[i].h.clone();
                        let hj0 = s.tracked[j].h.clone();
                        if s.eg.find_applied_id(&hi).id != s.eg.find_applied_id(&hj0).id {
                            continue;
                        }
                        let ti = s.tracked[i].tm.clone();
                        let tj = s.tracked[j].tm.clone();
                        let fs = ti.free_vec();
                        let ft = tj.free_vec();
                        let fresh: Vec<S> = (40..40 + ft.len() as S).collect();
                        let mut rens = relative_renamings(&ft, &fs, &fresh);
                        orng.shuffle(&mut rens);
                        rens.truncate(12);
                        for rho in rens {
                            let hj = s.handle_inst(j, &rho);
                            if s.eg.eq(&hi, &hj) {
                                let mut fr = 3000;
                                newp.push((hi.clone(), hj, k, format!("{} = {}", ti, tj.rename(&rho, &mut fr))));
                            }
                        }
                    }
                    newp
                });
                match rec {
                    Ok(v) => equal_pairs.extend(v),
                    Err(_) => {
                        out.discarded = Some("panic_in_query".into());
                        break;
                    }
                }
            }
            out.states.push(state_hash(&s.eg));
        }

        for (name, c) in seam::take_probes() {
            out.count(&format!("probe:{name}"), c);
        }
        let knobs = run.knobs();
        if knobs.hash_seed != 0 && out.counters.get("probe:rebuild_pop_with_choice").copied().unwrap_or(0) > 0 {
            out.bump("K1_hash_order");
        }
        if out.counters.get("probe:fresh_stride_taken").copied().unwrap_or(0) > 0 {
            out.bump("K2_fresh_stride");
        }
        if run.get("probes") != 0 && run.ops.iter().any(|o| o.name == "probe") {
            out.bump("K3_probes");
        }
        if seam::buggify_fired(1) + seam::buggify_fired(2) > 0 {
            out.bump("K4_buggify");
        }
        out.count("K4_compression_skipped", seam::buggify_fired(1));
        if run.get("old_handles") != 0 || run.get("nodewise") != 0 || run.get("naming") != 0 {
            out.bump("K5_client_schedule");
        }
        out.count("recorded_equal_pairs", equal_pairs.len() as u64);
        out.log_hash = s.log_hash;
        out.nontrivial = out.discarded.is_none() && changes >= 2 && rechecked_after_change;
        out
        }
}
