//! C07: explanations are valid proofs of the queried equation. M_proof: an independent proof
//! checker that works on terms (through get_syn_expr) and shares no code with src/explain.

use super::{Check, Tier};
use crate::run::*;

pub struct ExplainCheck;

#[cfg(not(feature = "explanations"))]
impl Check for ExplainCheck {
    fn id(&self) -> &'static str {
        "C07"
    }
    fn gen(&self, seed: u64, _tier: Tier) -> Run {
        Run::new("C07", seed)
    }
    fn exec(&self, _run: &Run) -> Outcome {
        panic!("harness: C07 needs a build with the explanations feature")
    }
    fn rule(&self) -> &'static str {
        ""
    }
    fn fault_kinds(&self) -> &'static [&'static str] {
        &[]
    }
    fn budget(&self, _tier: Tier) -> u64 {
        0
    }
}

#[cfg(feature = "explanations")]
pub use imp::*;

#[cfg(not(feature = "explanations"))]
pub fn check_rw_proofs(_s: &mut crate::sess::Sess<crate::langs::LA, crate::analysis::SimAn>, _p: u32, _orng: &mut crate::rng::Rng, out: &mut crate::run::Outcome, _at: usize) -> Option<crate::run::Violation> {
    out.discarded = Some("needs the explanations build".into());
    None
}

#[cfg(feature = "explanations")]
mod imp {
    use super::super::sesscc::{gen_sess_run, relative_renamings, state_hash};
    use super::super::{Check, Tier};
    use super::ExplainCheck;
    use crate::exec::seam;
    use crate::langs::*;
    use crate::rng::Rng;
    use crate::run::*;
    use crate::sess::*;
    use crate::tm::*;
    use slotted_egraphs::*;
    use std::collections::{BTreeMap, HashMap};

    type Eqn = (Tm, Tm);

    /// theta with theta.s alpha= t, if the canonical forms agree
    fn match_term(s: &Tm, t: &Tm) -> Option<BTreeMap<S, S>> {
        let (cs, as_) = s.canon();
        let (ct, at) = t.canon();
        if cs != ct {
            return None;
        }
        Some(as_.into_iter().zip(at.into_iter()).collect())
    }

    /// (pl, pr) is matched by (l, r) through one renaming that is injective on each side of the
    /// premise and consistent on shared slots
    fn match_pair(p: &Eqn, c: &Eqn) -> bool {
        let Some(tl) = match_term(&p.0, &c.0) else { return false };
        let Some(tr) = match_term(&p.1, &c.1) else { return false };
        for (k, v) in &tl {
            if let Some(v2) = tr.get(k) {
                if v != v2 {
                    return false;
                }
            }
        }
        true
    }

    fn check_transitivity(p1: &Eqn, p2: &Eqn, c: &Eqn) -> Result<(), String> {
        // theta1 on p1.l from c.l, theta2 on p2.r from c.r
        let mut t1 = match_term(&p1.0, &c.0).ok_or("left premise's left side is no instance of the conclusion's left side")?;
        let mut t2 = match_term(&p2.1, &c.1).ok_or("right premise's right side is no instance of the conclusion's right side")?;
        let (cm1, a1) = p1.1.canon();
        let (cm2, a2) = p2.0.canon();
        if cm1 != cm2 {
            return Err("the middle terms of the two premises are different terms".into());
        }
        let mut fresh = 900_000;
        for (x1, x2) in a1.iter().zip(a2.iter()) {
            match (t1.get(x1).copied(), t2.get(x2).copied()) {
                (Some(a), Some(b)) => {
                    if a != b {
                        return Err(format!("the middle terms disagree on slot ${x1}/${x2}: ${a} vs ${b}"));
                    }
                }
                (Some(a), None) => {
                    t2.insert(*x2, a);
                }
                (None, Some(b)) => {
                    t1.insert(*x1, b);
                }
                (None, None) => {
                    fresh += 1;
                    t1.insert(*x1, fresh);
                    t2.insert(*x2, fresh);
                }
            }
        }
        // injective on each side of each premise
        for (th, side) in [(&t1, &p1.0), (&t1, &p1.1), (&t2, &p2.0), (&t2, &p2.1)] {
            let mut seen = Vec::new();
            for x in side.free() {
                let y = th[&x];
                if seen.contains(&y) {
                    return Err(format!("the renaming identifies two slots of {side}"));
                }
                seen.push(y);
            }
        }
        Ok(())
    }

    fn check_congruence(ps: &[Eqn], c: &Eqn) -> Result<(), String> {
        let (l, r) = c;
        if l.op != r.op || l.pay != r.pay || l.kids.len() != r.kids.len() || l.kids.len() != ps.len() {
            return Err(format!("congruence between different operators or arities: {l} vs {r} with {} sub-proofs", ps.len()));
        }
        if l.slots != r.slots {
            return Err(format!("congruence with different slot arguments: {l} vs {r}"));
        }
        for (i, (kl, kr)) in l.kids.iter().zip(r.kids.iter()).enumerate() {
            if kl.binders.len() != kr.binders.len() {
                return Err("different binders".into());
            }
            // give the binders of both sides common names
            let mut ml = BTreeMap::new();
            let mut mr = BTreeMap::new();
            for (j, (bl, br)) in kl.binders.iter().zip(kr.binders.iter()).enumerate() {
                let n = 950_000 + (i * 8 + j) as S;
                ml.insert(*bl, n);
                mr.insert(*br, n);
            }
            let mut f1 = 960_000;
            let cl = kl.t.rename(&ml, &mut f1);
            let cr = kr.t.rename(&mr, &mut f1);
            if !match_pair(&ps[i], &(cl.clone(), cr.clone())) {
                return Err(format!("child {i}: the sub-proof proves {} = {} which does not match {} = {}", ps[i].0, ps[i].1, cl, cr));
            }
        }
        Ok(())
    }

    /// structural match of a rule side against a term: pattern slots -> term slots (injective),
    /// pattern binders -> term binders, variables -> subterms
    fn pat_match(p: &Pat, t: &Tm, slotmap: &mut BTreeMap<S, S>, vars: &mut BTreeMap<u32, Tm>, bound: &mut Vec<(S, S)>, binder_names: &mut BTreeMap<S, S>) -> bool {
        match p {
            Pat::Var(v) => {
                if let Some(old) = vars.get(v) {
                    old.alpha_eq(t)
                } else {
                    vars.insert(*v, t.clone());
                    true
                }
            }
            Pat::Subst(..) => false,
            Pat::Node { op, pay, slots, kids } => {
                if *op != t.op || *pay != t.pay || slots.len() != t.slots.len() || kids.len() != t.kids.len() {
                    return false;
                }
                for (ps, ts) in slots.iter().zip(t.slots.iter()) {
                    if let Some((_, tb)) = bound.iter().rev().find(|(a, _)| a == ps) {
                        if tb != ts {
                            return false;
                        }
                    } else {
                        if bound.iter().any(|(_, b)| b == ts) {
                            return false;
                        }
                        match slotmap.get(ps) {
                            Some(x) => {
                                if x != ts {
                                    return false;
                                }
                            }
                            None => {
                                if slotmap.values().any(|x| x == ts) {
                                    return false;
                                }
                                slotmap.insert(*ps, *ts);
                            }
                        }
                    }
                }
                for ((pb, pk), tk) in kids.iter().zip(t.kids.iter()) {
                    if pb.len() != tk.binders.len() {
                        return false;
                    }
                    let n = bound.len();
                    for (a, b) in pb.iter().zip(tk.binders.iter()) {
                        bound.push((*a, *b));
                        binder_names.insert(*a, *b);
                    }
                    let ok = pat_match(pk, &tk.t, slotmap, vars, bound, binder_names);
                    bound.truncate(n);
                    if !ok {
                        return false;
                    }
                }
                true
            }
        }
    }

    fn inst_side(p: &Pat, slotmap: &BTreeMap<S, S>, vars: &BTreeMap<u32, Tm>, binder_names: &BTreeMap<S, S>, bound: &mut Vec<S>) -> Option<Tm> {
        match p {
            Pat::Var(v) => vars.get(v).cloned(),
            Pat::Subst(..) => None,
            Pat::Node { op, pay, slots, kids } => {
                let mut sl = Vec::new();
                for ps in slots {
                    if bound.contains(ps) {
                        sl.push(*binder_names.get(ps).unwrap_or(ps));
                    } else {
                        sl.push(*slotmap.get(ps)?);
                    }
                }
                let mut ks = Vec::new();
                for (pb, pk) in kids {
                    let n = bound.len();
                    bound.extend(pb.iter().copied());
                    let t = inst_side(pk, slotmap, vars, binder_names, bound)?;
                    bound.truncate(n);
                    ks.push(Kid { binders: pb.iter().map(|b| *binder_names.get(b).unwrap_or(b)).collect(), t });
                }
                Some(Tm { op: *op, pay: *pay, slots: sl, kids: ks })
            }
        }
    }

    fn pat_free_slots(p: &Pat, bound: &mut Vec<S>, out: &mut Vec<S>) {
        if let Pat::Node { slots, kids, .. } = p {
            for x in slots {
                if !bound.contains(x) && !out.contains(x) {
                    out.push(*x);
                }
            }
            for (b, k) in kids {
                let n = bound.len();
                bound.extend(b.iter().copied());
                pat_free_slots(k, bound, out);
                bound.truncate(n);
            }
        }
    }

    /// is (l, r) an instance of the rule lp => rp (in either orientation of the equation)?
    fn is_rule_instance(lp: &Pat, rp: &Pat, c: &Eqn) -> bool {
        for (a, b) in [(&c.0, &c.1), (&c.1, &c.0)] {
            // binders of the matched side get names that occur nowhere else, so that a variable's
            // term moved under another binder by the right side cannot be captured here
            let mut fresh = 970_000;
            let a = &a.rename(&BTreeMap::new(), &mut fresh);
            let mut slotmap = BTreeMap::new();
            let mut vars = BTreeMap::new();
            let mut names = BTreeMap::new();
            if pat_match(lp, a, &mut slotmap, &mut vars, &mut Vec::new(), &mut names) {
                // free slots that only the right pattern has stand for any slots not used otherwise
                let mut ls = Vec::new();
                let mut rs = Vec::new();
                pat_free_slots(lp, &mut Vec::new(), &mut ls);
                pat_free_slots(rp, &mut Vec::new(), &mut rs);
                let only_r: Vec<S> = rs.into_iter().filter(|x| !ls.contains(x)).collect();
                let cands: Vec<S> = b.free().into_iter().filter(|x| !slotmap.values().any(|y| y == x)).collect();
                let mut assignments: Vec<BTreeMap<S, S>> = vec![slotmap.clone()];
                for x in &only_r {
                    let mut next = Vec::new();
                    for m in &assignments {
                        for c in &cands {
                            if !m.values().any(|y| y == c) {
                                let mut m2 = m.clone();
                                m2.insert(*x, *c);
                                next.push(m2);
                            }
                        }
                    }
                    assignments = next;
                }
                for m in assignments {
                    if let Some(ri) = inst_side(rp, &m, &vars, &names, &mut Vec::new()) {
                        if ri.alpha_eq(b) {
                            return true;
                        }
                    }
                }
            }
        }
        false
    }

    /// entry point for other checks: re-checks `proof` and its conclusion against `query`.
    /// Ok((proof nodes checked, leaves justified by a rule)) or Err((clause, message)).
    pub fn check_proof<L: SimLang, N: Analysis<L>>(eg: &EGraph<L, N>, nm: &mut Naming, proof: &ProvenEq, asserted: &[(Tm, Tm, String)], rules: &[(Pat, Pat, String)], query: &Eqn) -> Result<(u64, u64), (String, String)> {
        let mut ck = Checker { eg, nm, asserted, rules, memo: HashMap::new(), nodes: 0, rule_leaves: 0 };
        let c = ck.check(proof).map_err(|m| ("proof_step_valid".to_string(), m))?;
        if !match_pair(&c, query) && !match_pair(query, &c) {
            return Err(("conclusion_is_query".to_string(), format!("the proof concludes {} = {}", c.0, c.1)));
        }
        Ok((ck.nodes, ck.rule_leaves))
    }

    struct Checker<'a, L: SimLang, N: Analysis<L>> {
        eg: &'a EGraph<L, N>,
        nm: &'a mut Naming,
        asserted: &'a [(Tm, Tm, String)],
        rules: &'a [(Pat, Pat, String)],
        pub rule_leaves: u64,
        memo: HashMap<*const ProvenEqRaw, Eqn>,
        pub nodes: u64,
    }

    impl<'a, L: SimLang, N: Analysis<L>> Checker<'a, L, N> {
        fn eqn(&mut self, p: &ProvenEq) -> Eqn {
            let e = p.equ();
            let l = from_re::<L>(&self.eg.get_syn_expr(&e.l), self.nm);
            let r = from_re::<L>(&self.eg.get_syn_expr(&e.r), self.nm);
            (l, r)
        }

        /// checks the proof DAG below `p`; returns the proven equation as terms
        fn check(&mut self, p: &ProvenEq) -> Result<Eqn, String> {
            let key = &**p as *const ProvenEqRaw;
            if let Some(e) = self.memo.get(&key) {
                return Ok(e.clone());
            }
            self.nodes += 1;
            let c = self.eqn(p);
            match p.proof() {
                Proof::Reflexivity(_) => {
                    if !c.0.alpha_eq(&c.1) {
                        return Err(format!("reflexivity used for {} = {}", c.0, c.1));
                    }
                }
                Proof::Symmetry(SymmetryProof(q)) => {
                    let e = self.check(q)?;
                    if !match_pair(&(e.1.clone(), e.0.clone()), &c) {
                        return Err(format!("symmetry: premise {} = {} does not give {} = {}", e.0, e.1, c.0, c.1));
                    }
                }
                Proof::Transitivity(TransitivityProof(q1, q2)) => {
                    let e1 = self.check(q1)?;
                    let e2 = self.check(q2)?;
                    check_transitivity(&e1, &e2, &c).map_err(|m| format!("transitivity: {m}; premises {} = {} and {} = {}, conclusion {} = {}", e1.0, e1.1, e2.0, e2.1, c.0, c.1))?;
                }
                Proof::Congruence(CongruenceProof(qs)) => {
                    let mut es = Vec::new();
                    for q in qs {
                        es.push(self.check(q)?);
                    }
                    check_congruence(&es, &c).map_err(|m| format!("congruence: {m}; conclusion {} = {}", c.0, c.1))?;
                }
                Proof::Explicit(ExplicitProof(j)) => {
                    let j = j.clone().unwrap_or_default();
                    let mut ok = self.asserted.iter().any(|(a, b, ja)| *ja == j && (match_pair(&(a.clone(), b.clone()), &c) || match_pair(&(b.clone(), a.clone()), &c)));
                    if !ok && self.rules.iter().any(|(lp, rp, jr)| *jr == j && is_rule_instance(lp, rp, &c)) {
                        ok = true;
                        self.rule_leaves += 1;
                    }
                    if !ok {
                        return Err(format!("explicit step {} = {} with justification {j:?} is no instance of an asserted equation", c.0, c.1));
                    }
                }
            }
            self.memo.insert(key, c.clone());
            Ok(c)
        }
    }

    /// C07 under saturation (part C07S): after a rewrite iteration over LA, explains why inserted
    /// terms are equal to the smallest term of their class and to each other; leaves must be
    /// instances of rules of the pool with the rule's name as justification.
    pub fn check_rw_proofs(s: &mut Sess<LA, crate::analysis::SimAn>, p: u32, orng: &mut Rng, out: &mut Outcome, at: usize) -> Option<Violation> {
        let rules: Vec<(Pat, Pat, String)> = crate::rules::rule_pool(p).iter().map(|r| (r.l.clone(), r.r.clone(), r.name.to_string())).collect();
        let nt = s.tracked.len();
        if nt == 0 {
            return None;
        }
        let mut queries: Vec<(Tm, Tm)> = Vec::new();
        // read-only use of the e-graph between explanation calls (the previous call of this
        // function ended with explain_equivalence): it has to be in a consistent state
        let picks: Vec<usize> = (0..3).map(|_| orng.below(nt)).collect();
        let smalls = catch_op(|| {
            let ex = Extractor::<LA, AstSize>::new(&s.eg, AstSize);
            picks.iter().map(|i| ex.extract(&s.eg.find_applied_id(&s.tracked[*i].h), &s.eg)).collect::<Vec<_>>()
        });
        match smalls {
            Err(p) => return Some(panic_violation("C07", "egraph_usable_after_explanation", &p, at)),
            Ok(v) => {
                for (i, re) in picks.iter().zip(v.iter()) {
                    let small = from_re::<LA>(re, &mut s.nm);
                    queries.push((s.tracked[*i].tm.clone(), small));
                }
            }
        }
        for _ in 0..8 {
            let (i, j) = (orng.below(nt), orng.below(nt));
            if i != j && s.eg.eq(&s.tracked[i].h, &s.tracked[j].h) {
                queries.push((s.tracked[i].tm.clone(), s.tracked[j].tm.clone()));
            }
        }
        for (a, b) in queries {
            if a.alpha_eq(&b) {
                continue;
            }
            let re1 = to_re::<LA>(&a, &mut s.nm);
            let re2 = to_re::<LA>(&b, &mut s.nm);
            let proof = match { let _ph = crate::exec::phase("C07"); catch_op(|| s.eg.explain_equivalence(re1, re2)) } {
                Ok(p) => p,
                Err(p) => return Some(panic_violation("C07", "explain_returns", &p, at)),
            };
            out.bump("proofs_requested");
            match catch_op(|| check_proof(&s.eg, &mut s.nm, &proof, &[], &rules, &(a.clone(), b.clone()))) {
                Err(p) => return Some(panic_violation("C07", "proof_readable", &p, at)),
                Ok(Err((clause, m))) => return Some(viol(&clause, format!("after rewriting, explaining {a} = {b}: {m}"), at)),
                Ok(Ok((nodes, rule_leaves))) => {
                    out.count("proof_nodes_checked", nodes);
                    out.count("rule_leaves_checked", rule_leaves);
                    out.bump("nonreflexive_proofs_checked");
                }
            }
        }
        None
    }

    fn viol(clause: &str, detail: String, at: usize) -> Violation {
        Violation { property: "C07".into(), clause: clause.into(), kind: "mismatch".into(), sig: clause.into(), triggers: vec![], detail, at_op: at }
    }

    impl Check for ExplainCheck {
        fn id(&self) -> &'static str {
            "C07"
        }
        fn gen(&self, seed: u64, tier: Tier) -> Run {
            let mut run = gen_sess_run("C07", seed, tier, true);
            // an earlier e-graph in the same thread (same insertions, other equations and justifications)
            run.set("prelude", Rng::stream(seed, "prelude").chance(1, 4) as i64);
            run.set("nodewise", 0);
            run.set("companion", 0); // C07 has its own prelude e-graph
            run
        }
        fn rule(&self) -> &'static str {
            "seeded sess histories over LS in the explanations build, inserted with add_syn_expr and united with union_justified (justification = index of the equation); for sampled pairs of tracked terms that compare equal (all relative renamings) explain_equivalence must return, the proof DAG is re-checked node by node on terms by M_proof (reflexivity, symmetry, transitivity, congruence up to renamings injective on each side; explicit leaves = asserted equation instances with their justification), the conclusion must be the queried pair; non-trivial = at least one union changed the e-graph and at least one proof with an explicit leaf was checked; distinct = distinct canonical key"
        }
        fn fault_kinds(&self) -> &'static [&'static str] {
            &["K1_hash_order", "K2_fresh_stride", "K3_probes", "K4_buggify", "K5_client_schedule"]
        }
        fn budget(&self, tier: Tier) -> u64 {
            match tier {
                Tier::Quick => 25_000,
                Tier::Thorough => 150_000,
            }
        }
        fn exec(&self, run: &Run) -> Outcome {
            let mut out = Outcome::default();
            seam::apply(&run.knobs());
            if run.get("prelude") != 0 {
                // Another e-graph lives and dies in this thread first. It gets the same insertions in the
                // same order (so its class ids coincide with the ones of the e-graph under test), but
                // other equations (left side of equation i with the right side of equation i+1) under
                // other justifications, and it is asked for explanations. Nothing of it may show up in
                // the proofs of the second e-graph.
                let r = catch_op(|| {
                    let mut d: EGraph<LS, ()> = EGraph::new(());
                    let mut nm = Naming::new(run.get("naming") as u32);
                    let mut hs: BTreeMap<Tm, AppliedId> = BTreeMap::new();
                    for op in run.ops.iter().filter(|o| o.name == "add" || o.name == "union") {
                        for t in &op.t {
                            for sub in t.subterms_bottom_up() {
                                if !hs.contains_key(&sub) {
                                    let h = d.add_syn_expr(to_re::<LS>(&sub, &mut nm));
                                    hs.insert(sub.clone(), h);
                                }
                            }
                        }
                    }
                    let unions: Vec<&Op> = run.ops.iter().filter(|o| o.name == "union").collect();
                    let n = unions.len();
                    for i in 0..n {
                        let (a, b) = (&unions[i].t[0], &unions[(i + 1) % n].t[1]);
                        d.union_justified(&hs[a], &hs[b], Some(format!("pre{i}")));
                        let _ = d.explain_equivalence(to_re::<LS>(a, &mut nm), to_re::<LS>(b, &mut nm));
                    }
                });
                if r.is_err() {
                    out.discarded = Some("panic".into());
                    return out;
                }
                out.bump("prelude_egraphs");
            }
            let mut s: Sess<LS, ()> = Sess::new(EGraph::new(()), run.get("naming") as u32);
            let mut asserted: Vec<(Tm, Tm, String)> = Vec::new();
            let mut orng = Rng::stream(run.get("oracle_seed") as u64, "oracle-sampling");
            let mut any_change = false;
            for (k, op) in run.ops.iter().enumerate() {
                s.cur_op = k;
                let before = s.eg.progress();
                let r = catch_op(|| match op.name.as_str() {
                    "add" => {
                        for sub in op.t[0].subterms_bottom_up() {
                            if !s.by_exact.contains_key(&sub) {
                                let re = to_re::<LS>(&sub, &mut s.nm);
                                let h = s.eg.add_syn_expr(re);
                                let idx = s.tracked.len();
                                s.tracked.push(Tracked { tm: sub.clone(), h, at_op: k });
                                s.by_exact.insert(sub.clone(), idx);
                                s.by_canon.entry(sub.canon().0).or_insert(idx);
                            }
                        }
                    }
                    "union" => {
                        let mut hs = Vec::new();
                        for t in [&op.t[0], &op.t[1]] {
                            for sub in t.subterms_bottom_up() {
                                if !s.by_exact.contains_key(&sub) {
                                    let re = to_re::<LS>(&sub, &mut s.nm);
                                    let h = s.eg.add_syn_expr(re);
                                    let idx = s.tracked.len();
                                    s.tracked.push(Tracked { tm: sub.clone(), h, at_op: k });
                                    s.by_exact.insert(sub.clone(), idx);
                                    s.by_canon.entry(sub.canon().0).or_insert(idx);
                                }
                            }
                            hs.push(s.tracked[s.by_exact[t]].h.clone());
                        }
                        let j = format!("eq{}", asserted.len());
                        s.eg.union_justified(&hs[0], &hs[1], Some(j.clone()));
                        asserted.push((op.t[0].clone(), op.t[1].clone(), j));
                    }
                    "probe" => {
                        if run.get("probes") != 0 {
                            // check() is left out: it is C08's clause
                            let kind = if op.int(0).rem_euclid(8) == 5 { 0 } else { op.int(0) };
                            run_probes(&mut s, kind, op.int(1) as u64);
                        }
                    }
                    "reseed" => {
                        if run.get("hash_seed") != 0 {
                            seam::set_hash_seed(op.int(0) as u64);
                        }
                    }
                    o => panic!("harness: unknown op {o}"),
                });
                out.ops_executed += 1;
                if let Err(p) = r {
                    if p.msg.starts_with("harness:") || p.is_harness() {
                        panic!("harness panic: {} at {}", p.msg, p.loc);
                    }
                    out.discarded = Some("panic".into());
                    break;
                }
                if op.name == "union" && before != s.eg.progress() {
                    any_change = true;
                }
                if op.name != "union" && k + 1 != run.ops.len() {
                    continue;
                }
                // explain sampled equal pairs
                let nt = s.tracked.len();
                if nt == 0 {
                    continue;
                }
                let mut pairs: Vec<(usize, usize)> = Vec::new();
                for _ in 0..10 {
                    pairs.push((orng.below(nt), orng.below(nt)));
                }
                // the asserted pairs themselves
                for (a, b, _) in asserted.iter().rev().take(2) {
                    pairs.push((s.by_exact[a], s.by_exact[b]));
                }
                for (i, j) in pairs {
                    let ti = s.tracked[i].tm.clone();
                    let tj = s.tracked[j].tm.clone();
                    let hi = s.tracked[i].h.clone();
                    let same = match catch_op(|| s.eg.find_applied_id(&hi).id == s.eg.find_applied_id(&s.tracked[j].h).id) {
                        Ok(b) => b,
                        Err(_) => {
                            out.discarded = Some("panic_in_query".into());
                            return out;
                        }
                    };
                    if !same {
                        continue;
                    }
                    let fs = ti.free_vec();
                    let ft = tj.free_vec();
                    let fresh: Vec<S> = (70..70 + ft.len() as S).collect();
                    let mut rens = relative_renamings(&ft, &fs, &fresh);
                    orng.shuffle(&mut rens);
                    rens.truncate(8);
                    for rho in rens {
                        let hj = s.handle_inst(j, &rho);
                        let iseq = match catch_op(|| s.eg.eq(&hi, &hj)) {
                            Ok(b) => b,
                            Err(_) => {
                                out.discarded = Some("panic_in_query".into());
                                return out;
                            }
                        };
                        if !iseq {
                            continue;
                        }
                        let mut fr = 4000;
                        let tjr = normalise_binders(&tj.rename(&rho, &mut fr), 80);
                        let re1 = to_re::<LS>(&ti, &mut s.nm);
                        let re2 = to_re::<LS>(&tjr, &mut s.nm);
                        let proof = match { let _ph = crate::exec::phase("C07"); catch_op(|| s.eg.explain_equivalence(re1, re2)) } {
                            Ok(p) => p,
                            Err(p) => {
                                if p.is_harness() {
                                    panic!("harness panic: {} at {}", p.msg, p.loc);
                                }
                                out.violations.push(panic_violation("C07", "explain_returns", &p, k));
                                return finish(out, run, &s, any_change);
                            }
                        };
                        out.bump("proofs_requested");
                        let res = catch_op(|| {
                            let mut ck = Checker { eg: &s.eg, nm: &mut s.nm, asserted: &asserted, rules: &[], memo: HashMap::new(), nodes: 0, rule_leaves: 0 };
                            let r = ck.check(&proof);
                            (r, ck.nodes)
                        });
                        match res {
                            Err(p) => {
                                if p.is_harness() {
                                    panic!("harness panic: {} at {}", p.msg, p.loc);
                                }
                                out.violations.push(panic_violation("C07", "proof_readable", &p, k));
                                return finish(out, run, &s, any_change);
                            }
                            Ok((Err(m), _)) => {
                                out.violations.push(viol("proof_step_valid", format!("explaining {ti} = {tjr}: {m}"), k));
                                return finish(out, run, &s, any_change);
                            }
                            Ok((Ok(c), n)) => {
                                out.count("proof_nodes_checked", n);
                                if !match_pair(&c, &(ti.clone(), tjr.clone())) && !match_pair(&(ti.clone(), tjr.clone()), &c) {
                                    out.violations.push(viol("conclusion_is_query", format!("asked for {ti} = {tjr}, the proof concludes {} = {}", c.0, c.1), k));
                                    return finish(out, run, &s, any_change);
                                }
                                if !i.eq(&j) {
                                    out.bump("nonreflexive_proofs_checked");
                                }
                            }
                        }
                        // a query term that was never inserted: a tracked parent of ti with that kid
                        // replaced by the equal term (equal by congruence; new syntactic classes
                        // are created during the query)
                        if i != j && orng.chance(1, 2) {
                            let parent = s.tracked.iter().map(|t| t.tm.clone()).find(|p| p.kids.iter().any(|k| k.binders.is_empty() && k.t == ti));
                            if let Some(pt) = parent {
                                let mut p2 = pt.clone();
                                for k in p2.kids.iter_mut() {
                                    if k.binders.is_empty() && k.t == ti {
                                        k.t = tjr.clone();
                                        break;
                                    }
                                }
                                let r1 = to_re::<LS>(&pt, &mut s.nm);
                                let r2 = to_re::<LS>(&p2, &mut s.nm);
                                match { let _ph = crate::exec::phase("C07"); catch_op(|| s.eg.explain_equivalence(r1, r2)) } {
                                    Err(p) => {
                                        out.violations.push(panic_violation("C07", "explain_returns", &p, k));
                                        return finish(out, run, &s, any_change);
                                    }
                                    Ok(proof) => {
                                        let res = catch_op(|| check_proof(&s.eg, &mut s.nm, &proof, &asserted, &[], &(pt.clone(), p2.clone())));
                                        match res {
                                            Err(p) => {
                                                out.violations.push(panic_violation("C07", "proof_readable", &p, k));
                                                return finish(out, run, &s, any_change);
                                            }
                                            Ok(Err((clause, m))) => {
                                                out.violations.push(viol(&clause, format!("explaining {pt} = {p2} (second term never inserted): {m}"), k));
                                                return finish(out, run, &s, any_change);
                                            }
                                            Ok(Ok((n, _))) => {
                                                out.count("proof_nodes_checked", n);
                                                out.bump("new_term_proofs_checked");
                                            }
                                        }
                                    }
                                }
                            }
                        }
                    }
                }
                out.states.push(state_hash(&s.eg));
            }
            finish(out, run, &s, any_change)
        }
    }

    fn finish(mut out: Outcome, run: &Run, s: &Sess<LS, ()>, any_change: bool) -> Outcome {
        super::super::matching::finish_counters(&mut out, run);
        out.log_hash = s.log_hash ^ crate::rng::mix(out.counters.get("proof_nodes_checked").copied().unwrap_or(0));
        out.nontrivial = out.discarded.is_none() && any_change && out.counters.get("nonreflexive_proofs_checked").copied().unwrap_or(0) > 0;
        out
    }
}
