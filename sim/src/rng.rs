//! The only source of randomness in the simulator: splitmix64 streams derived by label.

#[derive(Clone, Debug)]
pub struct Rng(pub u64);

pub fn mix(mut z: u64) -> u64 {
    z = z.wrapping_add(0x9E37_79B9_7F4A_7C15);
    z = (z ^ (z >> 30)).wrapping_mul(0xBF58_476D_1CE4_E5B9);
    z = (z ^ (z >> 27)).wrapping_mul(0x94D0_49BB_1331_11EB);
    z ^ (z >> 31)
}

pub fn hash_str(s: &str) -> u64 {
    let mut h = 0xcbf2_9ce4_8422_2325u64;
    for b in s.bytes() {
        h ^= b as u64;
        h = h.wrapping_mul(0x100_0000_01b3);
    }
    mix(h)
}

/// seed of run `i` of check `check` under `VERIF_SEED = base`.
pub fn run_seed(base: u64, check: &str, i: u64) -> u64 {
    mix(mix(base ^ hash_str(check)).wrapping_add(mix(i)))
}

impl Rng {
    pub fn new(seed: u64) -> Rng {
        Rng(seed)
    }
    /// independent stream derived by label.
    pub fn stream(seed: u64, label: &str) -> Rng {
        Rng(mix(seed ^ hash_str(label)))
    }
    pub fn next(&mut self) -> u64 {
        self.0 = self.0.wrapping_add(0x9E37_79B9_7F4A_7C15);
        let mut z = self.0;
        z = (z ^ (z >> 30)).wrapping_mul(0xBF58_476D_1CE4_E5B9);
        z = (z ^ (z >> 27)).wrapping_mul(0x94D0_49BB_1331_11EB);
        z ^ (z >> 31)
    }
    /// uniform in 0..n (n > 0)
    pub fn below(&mut self, n: usize) -> usize {
        (self.next() % (n as u64)) as usize
    }
    pub fn range(&mut self, lo: usize, hi_incl: usize) -> usize {
        lo + self.below(hi_incl - lo + 1)
    }
    /// true with probability num/den
    pub fn chance(&mut self, num: u64, den: u64) -> bool {
        self.next() % den < num
    }
    pub fn pick<'a, T>(&mut self, v: &'a [T]) -> &'a T {
        &v[self.below(v.len())]
    }
    pub fn shuffle<T>(&mut self, v: &mut [T]) {
        for i in (1..v.len()).rev() {
            let j = self.below(i + 1);
            v.swap(i, j);
        }
    }
    /// weighted choice; returns index
    pub fn weighted(&mut self, w: &[u32]) -> usize {
        let total: u64 = w.iter().map(|x| *x as u64).sum();
        let mut r = self.next() % total;
        for (i, x) in w.iter().enumerate() {
            if r < *x as u64 {
                return i;
            }
            r -= *x as u64;
        }
        w.len() - 1
    }
}
