//! K7: the baton scheduler. Real OS threads, but exactly one is runnable at any time and the
//! simulator decides (from the explicit schedule of the run) which one executes the next atomic
//! step. A thread's birth gives it an empty thread-local slot table ("restart").

use std::sync::mpsc::{channel, Receiver, Sender};
use std::thread::JoinHandle;

pub struct Worker<Resp: Send + 'static> {
    tx: Sender<Option<usize>>,
    rx: Receiver<Resp>,
    handle: Option<JoinHandle<()>>,
    pub steps: usize,
    pub next: usize,
}

/// Spawns one parked worker per program; `step(thread_no, step_no)` is executed by the worker
/// thread each time the scheduler hands it the baton.
pub fn spawn_workers<Resp: Send + 'static, St: 'static>(
    nsteps: &[usize],
    init: impl Fn(usize) -> St + Send + Sync + Clone + 'static,
    step: impl Fn(&mut St, usize, usize) -> Resp + Send + Sync + Clone + 'static,
) -> Vec<Worker<Resp>> {
    let mut out = Vec::new();
    for (tno, n) in nsteps.iter().enumerate() {
        let (tx, wrx) = channel::<Option<usize>>();
        let (wtx, rx) = channel::<Resp>();
        let step = step.clone();
        let init = init.clone();
        let handle = std::thread::Builder::new()
            .stack_size(64 << 20)
            .spawn(move || {
                let mut st = init(tno);
                while let Ok(Some(k)) = wrx.recv() {
                    let r = step(&mut st, tno, k);
                    if wtx.send(r).is_err() {
                        break;
                    }
                }
            })
            .expect("spawn worker");
        out.push(Worker { tx, rx, handle: Some(handle), steps: *n, next: 0 });
    }
    out
}

impl<Resp: Send + 'static> Worker<Resp> {
    pub fn done(&self) -> bool {
        self.next >= self.steps
    }
    /// hands the baton to this worker for one step and waits until it gives it back
    pub fn step(&mut self) -> Resp {
        let k = self.next;
        self.next += 1;
        self.tx.send(Some(k)).expect("worker alive");
        self.rx.recv().expect("worker responded")
    }
    pub fn finish(&mut self) {
        let _ = self.tx.send(None);
        if let Some(h) = self.handle.take() {
            let _ = h.join();
        }
    }
}

/// Runs all workers to completion following `schedule` (thread numbers; entries naming a
/// finished thread are skipped; when the schedule is exhausted the remaining steps run
/// round-robin). Returns the responses in execution order with (thread, step) and the number of
/// context switches.
pub fn run_schedule<Resp: Send + 'static>(workers: &mut Vec<Worker<Resp>>, schedule: &[usize]) -> (Vec<(usize, usize, Resp)>, usize) {
    let mut out = Vec::new();
    let mut switches = 0;
    let mut last: Option<usize> = None;
    let mut si = 0;
    loop {
        if workers.iter().all(|w| w.done()) {
            break;
        }
        let n = workers.len();
        let mut t = if si < schedule.len() { schedule[si] % n } else { (last.unwrap_or(0) + 1) % n };
        si += 1;
        let mut guard = 0;
        while workers[t].done() {
            t = (t + 1) % n;
            guard += 1;
            assert!(guard <= n);
        }
        if let Some(l) = last {
            if l != t {
                switches += 1;
            }
        }
        last = Some(t);
        let k = workers[t].next;
        let r = workers[t].step();
        out.push((t, k, r));
    }
    for w in workers.iter_mut() {
        w.finish();
    }
    (out, switches)
}
