//! The simulator's own languages over the real crate, and conversion Tm <-> RecExpr.

use crate::tm::*;
use slotted_egraphs::*;
use std::collections::BTreeMap;

define_language! {
    pub enum LS {
        P1(Slot) = "p1",
        P2(Slot, Slot) = "p2",
        P3(Slot, Slot, Slot) = "p3",
        P4(Slot, Slot, Slot, Slot) = "p4",
        P5(Slot, Slot, Slot, Slot, Slot) = "p5",
        P6(Slot, Slot, Slot, Slot, Slot, Slot) = "p6",
        K(u32),
        U(AppliedId) = "u",
        B(AppliedId, AppliedId) = "b",
        G(Slot, AppliedId) = "g",
        Lam(Bind<AppliedId>) = "lam",
        Let(Bind<AppliedId>, AppliedId) = "let",
        Lam2(Bind<Bind<AppliedId>>) = "lam2",
        Sym(Symbol),
        T(AppliedId, AppliedId, AppliedId) = "t",
        H(AppliedId, Bind<AppliedId>) = "h",
        // a child BEFORE a plain slot of the node (g has them the other way round)
        Gr(AppliedId, Slot) = "gr",
    }
}

define_language! {
    pub enum LA {
        Num(u32),
        Var(Slot) = "var",
        Add(AppliedId, AppliedId) = "add",
        Mul(AppliedId, AppliedId) = "mul",
        Neg(AppliedId) = "neg",
        Sum(Bind<AppliedId>) = "sum",
        Let(Bind<AppliedId>, AppliedId) = "let",
        // uninterpreted constant c is stored as -(c+1), so that its printed form is not a Num
        Cst(i32),
        Sumr(AppliedId, Bind<AppliedId>) = "sumr",
    }
}

thread_local! {
    /// naming kind 9: do the rules' binder slots and repeated free slots (90..93) also take the names
    /// of class slots? (set per run)
    pub static HINT_BINDERS: std::cell::Cell<bool> = std::cell::Cell::new(false);
}

thread_local! {
    /// class slots of the e-graph at the moment rules are built (naming kind 9 only)
    pub static NAMING_HINT: std::cell::RefCell<Vec<Slot>> = std::cell::RefCell::new(Vec::new());
}

/// Maps abstract slot numbers to real slots. Must be created inside the run's thread
/// (named slots are interned in a thread-local table).
#[derive(Clone)]
pub struct Naming {
    pub kind: u32,
    fwd: BTreeMap<S, Slot>,
    rev: BTreeMap<Slot, S>,
    next_unknown: S,
}

pub const NAMING_KINDS: u32 = 11;
pub const UNKNOWN_BASE: S = 500_000;

impl Naming {
    pub fn new(kind: u32) -> Naming {
        let mut n = Naming { kind, fwd: BTreeMap::new(), rev: BTreeMap::new(), next_unknown: UNKNOWN_BASE };
        if kind == 7 {
            // user slots that look like the crate's own fresh slots ($f<n>). They are all created
            // up front, before the e-graph invents any slot, so hygiene (C17) is what keeps the
            // later internal slots apart from them.
            for s in 0..64 {
                n.slot(s);
            }
        }
        n
    }

    fn make(&self, s: S) -> Slot {
        match self.kind {
            0 => Slot::numeric(s),
            // reversed numeric order
            1 => Slot::numeric(5_000_000 - s),
            // textual names, sorted like the numbers
            2 => Slot::named(&format!("a{:07}", s)),
            // textual names, sorted against the numbers
            3 => Slot::named(&format!("z{:07}", 9_000_000 - s)),
            // mixed: even numeric, odd textual - and the textual names are non-canonical spellings of the
            // neighbouring numbers ("03" next to $3, "+5" next to $5): distinct names, hence distinct slots
            4 => {
                if s % 2 == 0 {
                    Slot::numeric(s + 3)
                } else if s % 4 == 1 {
                    Slot::named(&format!("0{}", s + 2))
                } else {
                    Slot::named(&format!("+{}", s + 2))
                }
            }
            // scrambled numeric
            5 => Slot::numeric(((s as u64 * 7919 + 13) % 1_000_003) as u32),
            // textual with shared prefix and varying length
            6 => Slot::named(&format!("s{}_{}", "x".repeat((s % 5) as usize + 1), s)),
            7 => {
                if s < 64 {
                    Slot::named(&format!("f{}", s * 3 + 2))
                } else {
                    Slot::numeric(s + 1000)
                }
            }
            // names of the crate's own fresh-slot form, created lazily: each one is spelled for the
            // first time right before the insertion that uses it, far above the fresh counter
            8 => Slot::named(&format!("f{}", 1000 + s * 53)),
            // the slots that rules spell (pattern slots 90..99) get the names of the first internal
            // class slots ($f0, $f1, ..): a rule may legally mention such a name, and it then denotes
            // the very slot the e-graph uses inside some class; everything else is textual
            9 => {
                if (90..100).contains(&s) && (s >= 94 || HINT_BINDERS.with(|h| h.get())) {
                    // a slot that only the right side of a rule mentions: the user read the name of a
                    // class slot off the e-graph (hint set by the executor right before the rules
                    // are built) and spelled it in the rule
                    let hint = NAMING_HINT.with(|h| h.borrow().clone());
                    match hint.get(((s + 6) % 10) as usize) {
                        Some(x) if self.rev.get(x).map(|o| Naming::is_unknown(*o)).unwrap_or(true) => *x,
                        _ => Slot::named(&format!("a{:07}", s)),
                    }
                } else {
                    Slot::named(&format!("a{:07}", s))
                }
            }
            // the crate's fresh-slot form again, spelled lazily and exactly ON the boundary: the name of
            // the very next fresh slot ($f<n> with n = the thread's counter at this moment). Legal (it
            // has never been constructed), and the crate has to move its counter past it.
            10 => {
                let probe = Slot::fresh().to_string();
                match probe.strip_prefix("$f").and_then(|d| d.parse::<u64>().ok()) {
                    Some(k) if k + 1 < (1 << 30) => Slot::named(&format!("f{}", k + 1)),
                    _ => Slot::named(&format!("a{:07}", s)),
                }
            }
            k => panic!("unknown naming {k}"),
        }
    }

    /// For the namings whose names are a fixed function of the abstract number (kinds 1-6): two of the given
    /// abstract slots whose (distinct) names the crate maps to ONE slot, if any. The renaming of a C11 / C12
    /// run is injective on names by construction, so a collision is the crate's doing.
    pub fn collision(kind: u32, names: &[S]) -> Option<(S, S, Slot)> {
        if !(1..=6).contains(&kind) {
            return None;
        }
        let n = Naming { kind, fwd: BTreeMap::new(), rev: BTreeMap::new(), next_unknown: UNKNOWN_BASE };
        let mut seen: BTreeMap<Slot, S> = BTreeMap::new();
        for s in names {
            let x = n.make(*s);
            if let Some(o) = seen.insert(x, *s) {
                if o != *s {
                    return Some((o, *s, x));
                }
            }
        }
        None
    }

    /// makes the abstract slot `s` denote the real slot `x` from now on (used for pattern-local names:
    /// a pattern may spell its slots like any slot, e.g. like an internal slot of a class)
    pub fn force(&mut self, s: S, x: Slot) {
        if let Some(old) = self.fwd.insert(s, x) {
            self.rev.remove(&old);
        }
        if let Some(prev) = self.rev.insert(x, s) {
            if prev != s {
                self.fwd.remove(&prev);
            }
        }
    }

    pub fn slot(&mut self, s: S) -> Slot {
        if let Some(x) = self.fwd.get(&s) {
            return *x;
        }
        let x = self.make(s);
        if let Some(old) = self.rev.get(&x).copied() {
            // the e-graph showed this slot to the simulator before the simulator used the name
            // itself (it was registered as an unknown slot): the real name wins
            assert!(Naming::is_unknown(old), "naming not injective at {s}");
            self.fwd.remove(&old);
        }
        self.fwd.insert(s, x);
        self.rev.insert(x, s);
        x
    }

    /// abstract number for a real slot; unknown slots (made fresh by the crate) get new numbers.
    pub fn unslot(&mut self, x: Slot) -> S {
        if let Some(s) = self.rev.get(&x) {
            return *s;
        }
        let s = self.next_unknown;
        self.next_unknown += 1;
        self.fwd.insert(s, x);
        self.rev.insert(x, s);
        s
    }

    pub fn known(&self, x: Slot) -> Option<S> {
        self.rev.get(&x).copied()
    }

    pub fn is_unknown(s: S) -> bool {
        s >= UNKNOWN_BASE && s < CANON_BOUND
    }

    pub fn slotmap(&mut self, m: &BTreeMap<S, S>) -> SlotMap {
        let mut out = SlotMap::new();
        for (a, b) in m {
            let a = self.slot(*a);
            let b = self.slot(*b);
            out.insert(a, b);
        }
        out
    }
}

pub fn sym_name(pay: u32) -> String {
    format!("sy{pay}")
}
pub fn sym_pay(name: &str) -> u32 {
    name.strip_prefix("sy").and_then(|x| x.parse().ok()).unwrap_or(0)
}

pub trait SimLang: Language + 'static {
    const NAME: &'static str;
    /// node with null children
    fn mk(t: &Tm, nm: &mut Naming) -> Self;
    /// (op name, payload, slots, binders per kid)
    fn unmk(&self) -> (&'static str, u32, Vec<Slot>, Vec<Vec<Slot>>);
}

fn nul() -> AppliedId {
    AppliedId::null()
}

impl SimLang for LS {
    const NAME: &'static str = "LS";
    fn mk(t: &Tm, nm: &mut Naming) -> LS {
        let mut s = |i: usize| nm.slot(t.slots[i]);
        match t.name() {
            "p1" => LS::P1(s(0)),
            "p2" => LS::P2(s(0), s(1)),
            "p3" => LS::P3(s(0), s(1), s(2)),
            "p4" => LS::P4(s(0), s(1), s(2), s(3)),
            "p5" => LS::P5(s(0), s(1), s(2), s(3), s(4)),
            "p6" => LS::P6(s(0), s(1), s(2), s(3), s(4), s(5)),
            "k" => LS::K(t.pay),
            "sym" => LS::Sym(Symbol::from(sym_name(t.pay))),
            "u" => LS::U(nul()),
            "b" => LS::B(nul(), nul()),
            "t" => LS::T(nul(), nul(), nul()),
            "h" => LS::H(nul(), Bind { slot: nm.slot(t.kids[1].binders[0]), elem: nul() }),
            "g" => LS::G(s(0), nul()),
            "gr" => LS::Gr(nul(), s(0)),
            "lam" => LS::Lam(Bind { slot: nm.slot(t.kids[0].binders[0]), elem: nul() }),
            "let" => LS::Let(Bind { slot: nm.slot(t.kids[0].binders[0]), elem: nul() }, nul()),
            "lam2" => LS::Lam2(Bind {
                slot: nm.slot(t.kids[0].binders[0]),
                elem: Bind { slot: nm.slot(t.kids[0].binders[1]), elem: nul() },
            }),
            o => panic!("op {o} not in LS"),
        }
    }
    fn unmk(&self) -> (&'static str, u32, Vec<Slot>, Vec<Vec<Slot>>) {
        match self {
            LS::P1(a) => ("p1", 0, vec![*a], vec![]),
            LS::P2(a, b) => ("p2", 0, vec![*a, *b], vec![]),
            LS::P3(a, b, c) => ("p3", 0, vec![*a, *b, *c], vec![]),
            LS::P4(a, b, c, d) => ("p4", 0, vec![*a, *b, *c, *d], vec![]),
            LS::P5(a, b, c, d, e) => ("p5", 0, vec![*a, *b, *c, *d, *e], vec![]),
            LS::P6(a, b, c, d, e, f) => ("p6", 0, vec![*a, *b, *c, *d, *e, *f], vec![]),
            LS::K(p) => ("k", *p, vec![], vec![]),
            LS::Sym(sy) => ("sym", sym_pay(sy.as_str()), vec![], vec![]),
            LS::U(_) => ("u", 0, vec![], vec![vec![]]),
            LS::B(_, _) => ("b", 0, vec![], vec![vec![], vec![]]),
            LS::T(_, _, _) => ("t", 0, vec![], vec![vec![], vec![], vec![]]),
            LS::H(_, b) => ("h", 0, vec![], vec![vec![], vec![b.slot]]),
            LS::G(s, _) => ("g", 0, vec![*s], vec![vec![]]),
            LS::Gr(_, s) => ("gr", 0, vec![*s], vec![vec![]]),
            LS::Lam(b) => ("lam", 0, vec![], vec![vec![b.slot]]),
            LS::Let(b, _) => ("let", 0, vec![], vec![vec![b.slot], vec![]]),
            LS::Lam2(b) => ("lam2", 0, vec![], vec![vec![b.slot, b.elem.slot]]),
        }
    }
}

impl SimLang for LA {
    const NAME: &'static str = "LA";
    fn mk(t: &Tm, nm: &mut Naming) -> LA {
        match t.name() {
            "num" => LA::Num(t.pay),
            "cst" => LA::Cst(-(t.pay as i32) - 1),
            "var" => LA::Var(nm.slot(t.slots[0])),
            "add" => LA::Add(nul(), nul()),
            "mul" => LA::Mul(nul(), nul()),
            "neg" => LA::Neg(nul()),
            "sum" => LA::Sum(Bind { slot: nm.slot(t.kids[0].binders[0]), elem: nul() }),
            "sumr" => LA::Sumr(nul(), Bind { slot: nm.slot(t.kids[1].binders[0]), elem: nul() }),
            "let" => LA::Let(Bind { slot: nm.slot(t.kids[0].binders[0]), elem: nul() }, nul()),
            o => panic!("op {o} not in LA"),
        }
    }
    fn unmk(&self) -> (&'static str, u32, Vec<Slot>, Vec<Vec<Slot>>) {
        match self {
            LA::Num(p) => ("num", *p, vec![], vec![]),
            LA::Cst(p) => ("cst", (-(*p) - 1) as u32, vec![], vec![]),
            LA::Var(s) => ("var", 0, vec![*s], vec![]),
            LA::Add(_, _) => ("add", 0, vec![], vec![vec![], vec![]]),
            LA::Mul(_, _) => ("mul", 0, vec![], vec![vec![], vec![]]),
            LA::Neg(_) => ("neg", 0, vec![], vec![vec![]]),
            LA::Sum(b) => ("sum", 0, vec![], vec![vec![b.slot]]),
            LA::Sumr(_, b) => ("sumr", 0, vec![], vec![vec![], vec![b.slot]]),
            LA::Let(b, _) => ("let", 0, vec![], vec![vec![b.slot], vec![]]),
        }
    }
}

pub fn to_re<L: SimLang>(t: &Tm, nm: &mut Naming) -> RecExpr<L> {
    let node = L::mk(t, nm);
    let children = t.kids.iter().map(|k| to_re::<L>(&k.t, nm)).collect();
    RecExpr { node, children }
}

pub fn from_re<L: SimLang>(re: &RecExpr<L>, nm: &mut Naming) -> Tm {
    let (name, pay, slots, binders) = re.node.unmk();
    let slots = slots.into_iter().map(|s| nm.unslot(s)).collect();
    assert_eq!(binders.len(), re.children.len());
    let kids = binders
        .into_iter()
        .zip(re.children.iter())
        .map(|(b, c)| Kid { binders: b.into_iter().map(|s| nm.unslot(s)).collect(), t: from_re::<L>(c, nm) })
        .collect();
    Tm { op: op(name), pay, slots, kids }
}

/// Pattern from a term: pattern variables are written as `cst:<1000+i>`/`k:<1000+i>` leaves? No:
/// patterns get their own small type.
#[derive(Clone, PartialEq, Eq, Hash, PartialOrd, Ord)]
pub enum Pat {
    Var(u32),
    Node { op: u8, pay: u32, slots: Vec<S>, kids: Vec<(Vec<S>, Pat)> },
    /// b[x := t]
    Subst(Box<Pat>, Box<Pat>, Box<Pat>),
}

impl std::fmt::Display for Pat {
    fn fmt(&self, f: &mut std::fmt::Formatter<'_>) -> std::fmt::Result {
        match self {
            Pat::Var(v) => write!(f, "?{v}"),
            Pat::Node { op, pay, slots, kids } => {
                let sp = &OPS[*op as usize];
                let bare = slots.is_empty() && kids.is_empty();
                if !bare {
                    write!(f, "(")?;
                }
                write!(f, "{}", sp.name)?;
                if sp.payload {
                    write!(f, ":{pay}")?;
                }
                for s in slots {
                    write!(f, " ${s}")?;
                }
                for (b, k) in kids {
                    if !b.is_empty() {
                        write!(f, " [")?;
                        for (i, x) in b.iter().enumerate() {
                            if i > 0 {
                                write!(f, " ")?;
                            }
                            write!(f, "${x}")?;
                        }
                        write!(f, "]")?;
                    }
                    write!(f, " {k}")?;
                }
                if !bare {
                    write!(f, ")")?;
                }
                Ok(())
            }
            Pat::Subst(b, x, t) => write!(f, "(subst {b} {x} {t})"),
        }
    }
}

impl std::fmt::Debug for Pat {
    fn fmt(&self, f: &mut std::fmt::Formatter<'_>) -> std::fmt::Result {
        write!(f, "{self}")
    }
}

impl Pat {
    pub fn node(name: &str, slots: Vec<S>, kids: Vec<(Vec<S>, Pat)>) -> Pat {
        Pat::Node { op: op(name), pay: 0, slots, kids }
    }
    pub fn pay(name: &str, pay: u32) -> Pat {
        Pat::Node { op: op(name), pay, slots: vec![], kids: vec![] }
    }
    pub fn vars(&self, out: &mut Vec<u32>) {
        match self {
            Pat::Var(v) => {
                if !out.contains(v) {
                    out.push(*v)
                }
            }
            Pat::Node { kids, .. } => {
                for (_, k) in kids {
                    k.vars(out)
                }
            }
            Pat::Subst(a, b, c) => {
                a.vars(out);
                b.vars(out);
                c.vars(out);
            }
        }
    }
    pub fn from_tm(t: &Tm) -> Pat {
        Pat::Node {
            op: t.op,
            pay: t.pay,
            slots: t.slots.clone(),
            kids: t.kids.iter().map(|k| (k.binders.clone(), Pat::from_tm(&k.t))).collect(),
        }
    }
    /// instantiate pattern variables with terms (no capture handling: caller's duty)
    pub fn inst(&self, sub: &BTreeMap<u32, Tm>) -> Tm {
        match self {
            Pat::Var(v) => sub[v].clone(),
            Pat::Node { op, pay, slots, kids } => Tm {
                op: *op,
                pay: *pay,
                slots: slots.clone(),
                kids: kids.iter().map(|(b, k)| Kid { binders: b.clone(), t: k.inst(sub) }).collect(),
            },
            Pat::Subst(..) => panic!("inst on subst pattern"),
        }
    }
    pub fn to_pattern<L: SimLang>(&self, nm: &mut Naming) -> Pattern<L> {
        match self {
            Pat::Var(v) => Pattern::PVar(format!("v{v}")),
            Pat::Node { op, pay, slots, kids } => {
                let shell = Tm {
                    op: *op,
                    pay: *pay,
                    slots: slots.clone(),
                    kids: kids
                        .iter()
                        .map(|(b, _)| Kid { binders: b.clone(), t: Tm::pay("k", 0) })
                        .collect(),
                };
                let node = L::mk(&shell, nm);
                Pattern::ENode(node, kids.iter().map(|(_, k)| k.to_pattern::<L>(nm)).collect())
            }
            Pat::Subst(b, x, t) => Pattern::Subst(
                Box::new(b.to_pattern::<L>(nm)),
                Box::new(x.to_pattern::<L>(nm)),
                Box::new(t.to_pattern::<L>(nm)),
            ),
        }
    }
}

pub fn pvar_name(v: u32) -> String {
    format!("v{v}")
}
