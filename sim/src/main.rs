pub mod analysis;
pub mod checks;
pub mod exec;
pub mod langs;
pub mod oracle {
    pub mod cc;
    pub mod field;
}
pub mod rules;
pub mod rng;
pub mod run;
pub mod sched;
pub mod sess;
pub mod tm;

use checks::{Check, Tier};
use run::*;
use serde_json::{json, Value};
use std::collections::{BTreeMap, HashSet};
use std::sync::atomic::{AtomicBool, AtomicU64, Ordering};
use std::sync::{Arc, Mutex};
use std::time::Instant;

fn gen_run(check: &'static dyn Check, seed: u64, i: u64, tier: Tier) -> Run {
    let rs = rng::run_seed(seed, check.id(), i);
    if i < check.enumerated(tier) {
        check.gen_enum(i, rs, tier)
    } else {
        check.gen(rs, tier)
    }
}

fn exec_isolated(check: &'static dyn Check, run: &Run) -> Outcome {
    try_exec_isolated(check, run).expect("run thread must not unwind (harness panic)")
}

/// None if the simulator itself panicked while executing the run (e.g. a shrunk run that the
/// executor cannot interpret): the minimiser rejects such candidates
fn try_exec_isolated(check: &'static dyn Check, run: &Run) -> Option<Outcome> {
    let run = run.clone();
    exec::try_in_fresh_thread(move || {
        let mut o = check.exec(&run);
        if exec::take_counter_exhausted() && run.get("stride_max") > 0 {
            // the K2 stride seam used up the u32 slot numbers: an artefact of the fault, no verdict
            o.violations.clear();
            o.discarded = Some("stride_exhausted_slot_numbers".into());
            o.nontrivial = false;
        }
        if exec::take_work_exceeded() {
            // too expensive (combinatorial blow-up of group variants): not a verdict of any kind
            o.violations.clear();
            o.discarded = Some("work_budget".into());
            o.nontrivial = false;
        }
        o
    })
    .ok()
}

#[derive(Clone, Debug)]
struct Known {
    id: String,
    property: String,
    clause: String,
    kind: String,
    sig_contains: String,
    trigger: String,
    what: String,
}

fn load_known(path: &str) -> Vec<Known> {
    let Ok(s) = std::fs::read_to_string(path) else { return vec![] };
    let mut out = Vec::new();
    for line in s.lines() {
        let Some(rest) = line.strip_prefix("open:") else { continue };
        let mut k = Known {
            id: String::new(),
            property: String::new(),
            clause: String::new(),
            kind: String::new(),
            sig_contains: String::new(),
            trigger: String::new(),
            what: String::new(),
        };
        for field in rest.split('|') {
            let Some((key, val)) = field.trim().split_once('=') else { continue };
            let val = val.trim().to_string();
            match key.trim() {
                "property" => k.property = val,
                "id" => k.id = val,
                "clause" => k.clause = val,
                "kind" => k.kind = val,
                "sig" => k.sig_contains = val,
                "trigger" => k.trigger = val,
                "what" => k.what = val,
                _ => {}
            }
        }
        assert!(!k.property.is_empty() && !k.id.is_empty(), "malformed known finding: {line}");
        out.push(k);
    }
    out
}

fn match_known<'a>(v: &Violation, known: &'a [Known]) -> Option<&'a Known> {
    known.iter().find(|k| {
        k.property == v.property
            && (k.clause.is_empty() || k.clause == v.clause)
            && (k.kind.is_empty() || k.kind == v.kind)
            && (k.sig_contains.is_empty() || v.sig.contains(&k.sig_contains))
            && (k.trigger.is_empty() || v.triggers.iter().any(|t| *t == k.trigger))
    })
}

/// first violation of `out` that is not covered by a known finding
fn first_unknown<'a>(out: &'a Outcome, known: &[Known]) -> Option<&'a Violation> {
    out.violations.iter().find(|v| match_known(v, known).is_none())
}

fn minimise(check: &'static dyn Check, run: &Run, class: &(String, String, String), known: &[Known], budget_execs: usize, budget_secs: u64) -> (Run, usize) {
    let start = Instant::now();
    let mut cur = run.clone();
    let mut execs = 0usize;
    'outer: loop {
        for cand in cur.shrink_candidates() {
            if execs >= budget_execs || start.elapsed().as_secs() >= budget_secs {
                break 'outer;
            }
            execs += 1;
            let Some(o) = try_exec_isolated(check, &cand) else { continue };
            let same = o.violations.iter().any(|v| &v.class() == class && match_known(v, known).is_none());
            if same {
                cur = cand;
                continue 'outer;
            }
        }
        break;
    }
    (cur, execs)
}

fn write_replay(dir: &str, prop: &str, config: &str, run: &Run, v: &Violation, original_ops: usize, minim_execs: usize) -> String {
    let d = format!("{dir}/{prop}");
    std::fs::create_dir_all(&d).expect("replay dir");
    let body = json!({
        "property": prop,
        "config": config,
        "expect": {"property": v.property, "clause": v.clause, "kind": v.kind, "sig": v.sig},
        "detail": v.detail,
        "original_ops": original_ops,
        "minimise_executions": minim_execs,
        "run": run.to_json(),
        "trace": run.short(),
    });
    let h = rng::hash_str(&body["run"].to_string());
    let path = format!("{d}/{:016x}.json", h);
    std::fs::write(&path, serde_json::to_string_pretty(&body).unwrap()).expect("write replay");
    path
}

struct Agg {
    evaluations: u64,
    nontrivial_keys: HashSet<u64>,
    distinct_keys: HashSet<u64>,
    states: HashSet<u64>,
    counters: BTreeMap<String, u64>,
    runs_with: BTreeMap<String, u64>,
    discarded: BTreeMap<String, u64>,
    ops_executed: u64,
    samples: Vec<Value>,
    known_hits: BTreeMap<String, (u64, String)>,
    violation: Option<(Run, Violation)>,
    log_hashes: BTreeMap<u64, (u64, String)>,
    slowest: (f64, u64),
}

fn outcome_digest(o: &Outcome) -> String {
    let v: Vec<String> = o.violations.iter().map(|v| format!("{}/{}/{}/{}", v.property, v.clause, v.kind, v.sig)).collect();
    let c: Vec<String> = o
        .counters
        .iter()
        .filter(|(k, _)| !k.starts_with("time_"))
        .map(|(k, v)| format!("{k}={v}"))
        .collect();
    format!("{:x}|{:?}|{}|{}|{:?}|{}", o.log_hash, v, o.nontrivial, c.join(","), o.discarded, o.states.len())
}

fn main() {
    let args: Vec<String> = std::env::args().collect();
    if args.len() < 2 {
        eprintln!("usage: simcheck run|replay|emit ...");
        std::process::exit(2);
    }
    exec::install_panic_hook();
    if args[1] != "c20child" {
        // fixed interning order of the symbols the simulator's languages use (the interner is
        // process-global; without this the order would depend on which run thread comes first)
        for i in 0..12 {
            let _ = slotted_egraphs::Symbol::from(langs::sym_name(i));
        }
    }
    let get = |name: &str| -> Option<String> {
        args.iter().position(|a| a == name).and_then(|i| args.get(i + 1).cloned())
    };
    let code = match args[1].as_str() {
        "run" => cmd_run(&get),
        "replay" => cmd_replay(&get),
        "emit" => cmd_emit(&get),
        "dbg" => cmd_dbg(&args[2..]),
        "c20child" => checks::repro::child_main(&get("--file").expect("--file")),
        _ => {
            eprintln!("unknown command");
            2
        }
    };
    std::process::exit(code);
}

fn leak_check(id: &str) -> &'static dyn Check {
    let c = checks::find(id).unwrap_or_else(|| {
        eprintln!("unknown check {id}");
        std::process::exit(2)
    });
    Box::leak(c)
}

fn cmd_emit(get: &dyn Fn(&str) -> Option<String>) -> i32 {
    let check = leak_check(&get("--check").expect("--check"));
    let seed: u64 = get("--seed").map(|s| s.parse().unwrap()).unwrap_or(1);
    let i: u64 = get("--index").map(|s| s.parse().unwrap()).unwrap_or(0);
    let tier = if get("--tier").as_deref() == Some("thorough") { Tier::Thorough } else { Tier::Quick };
    let run = gen_run(check, seed, i, tier);
    println!("{}", serde_json::to_string_pretty(&run.to_json()).unwrap());
    0
}

fn cmd_replay(get: &dyn Fn(&str) -> Option<String>) -> i32 {
    let path = get("--file").expect("--file");
    let s = std::fs::read_to_string(&path).expect("read replay file");
    let v: Value = serde_json::from_str(&s).expect("json");
    let run = Run::from_json(&v["run"]).expect("run");
    let check = leak_check(&run.check);
    exec::want_backtrace(true);
    let o = exec_isolated(check, &run);
    let prop = v["property"].as_str().unwrap_or(check.id());
    let exp = &v["expect"];
    println!("replay {} ops={} cfg={:?}", path, run.ops.len(), run.cfg);
    for l in run.short() {
        println!("  {l}");
    }
    for vi in &o.violations {
        println!("  -> {} {} {}: {}", vi.property, vi.clause, vi.kind, vi.detail);
    }
    if exp["clause"].as_str() == Some("outcome_not_reproducible") {
        let mut digests = vec![outcome_digest(&o)];
        let mut any = !o.violations.is_empty();
        for _ in 0..7 {
            let o2 = exec_isolated(check, &run);
            any |= !o2.violations.is_empty();
            digests.push(outcome_digest(&o2));
        }
        let differ = digests.iter().any(|d| *d != digests[0]);
        if any || differ {
            println!("  -> outcomes of 8 executions differ: {differ}; some execution violated a clause: {any}");
            println!("VIOLATION property={prop} replay={path}");
            return 1;
        }
        println!("replay did not reproduce the recorded violation");
        return 0;
    }
    let hit = o.violations.iter().any(|vi| {
        Some(vi.property.as_str()) == exp["property"].as_str()
            && Some(vi.clause.as_str()) == exp["clause"].as_str()
            && Some(vi.kind.as_str()) == exp["kind"].as_str()
    });
    if hit || (exp.is_null() && !o.violations.is_empty()) {
        println!("VIOLATION property={prop} replay={path}");
        1
    } else {
        println!("replay did not reproduce the recorded violation");
        0
    }
}

fn cmd_run(get: &dyn Fn(&str) -> Option<String>) -> i32 {
    let check = leak_check(&get("--check").expect("--check"));
    let prop = get("--property").unwrap_or_else(|| check.id().to_string());
    let tier = if get("--tier").as_deref() == Some("thorough") { Tier::Thorough } else { Tier::Quick };
    let seed: u64 = get("--seed").map(|s| s.parse().expect("seed")).unwrap_or(1);
    let share: f64 = get("--share").map(|s| s.parse().unwrap()).unwrap_or(1.0);
    let runs: u64 = get("--runs").map(|s| s.parse().unwrap()).unwrap_or_else(|| ((check.budget(tier) as f64) * share) as u64);
    let first: u64 = get("--first").map(|s| s.parse().unwrap()).unwrap_or(0);
    let threads: usize = get("--threads").map(|s| s.parse().unwrap()).unwrap_or(16);
    let max_secs: u64 = get("--max-seconds").map(|s| s.parse().unwrap()).unwrap_or(u64::MAX);
    let out_path = get("--out");
    let replay_dir = get("--replay-dir").unwrap_or_else(|| "/verif/replays".into());
    let known = load_known(&get("--known").unwrap_or_else(|| "/verif/known_findings.txt".into()));
    let config = get("--config").unwrap_or_else(|| "default".into());
    let survey = std::env::args().any(|a| a == "--survey");
    // run indices to leave out (runs that crashed the whole process in an earlier attempt)
    let skip: HashSet<u64> = get("--skip").map(|s| s.split(',').filter_map(|x| x.parse().ok()).collect()).unwrap_or_default();
    let skip = Arc::new(skip);
    // crash attribution: every worker records the run index it is executing in <prefix>.<worker>
    let progress_prefix: Option<String> = get("--progress");
    if let Some(f) = get("--phase-file") {
        let _ = exec::PHASE_FILE.set(f);
    }
    let det_samples: u64 = get("--determinism").map(|s| s.parse().unwrap()).unwrap_or(if tier == Tier::Quick { 64 } else { 1024 });

    // oracle / workload self-validation (a failure is a harness error, never a violation)
    if ["C03", "C14", "C15", "C08R", "C11R", "C06R", "C13R", "C07S", "C05R", "C09R", "C20A"].contains(&check.id()) {
        for p in [3u32, 5, 7] {
            if let Err(e) = rules::validate_pool(p, 200, seed) {
                eprintln!("HARNESS ERROR: {e}");
                return 2;
            }
        }
    }
    println!("simcheck check={} property={} tier={:?} VERIF_SEED={} runs={} config={} guard={}", check.id(), prop, tier, seed, runs, config, exec::seam::GUARD_ON);
    let start = Instant::now();
    let next = Arc::new(AtomicU64::new(first));
    let stop = Arc::new(AtomicBool::new(false));
    let agg = Arc::new(Mutex::new(Agg {
        evaluations: 0,
        nontrivial_keys: HashSet::new(),
        distinct_keys: HashSet::new(),
        states: HashSet::new(),
        counters: BTreeMap::new(),
        runs_with: BTreeMap::new(),
        discarded: BTreeMap::new(),
        ops_executed: 0,
        samples: Vec::new(),
        known_hits: BTreeMap::new(),
        violation: None,
        log_hashes: BTreeMap::new(),
        slowest: (0.0, 0),
    }));
    let known = Arc::new(known);

    // backstop: a run that takes longer than 900 s of wall clock is a harness error (exit 2)
    let running: Arc<Mutex<Vec<Option<(Instant, u64)>>>> = Arc::new(Mutex::new(vec![None; threads]));
    {
        let running = running.clone();
        let check_id = check.id();
        std::thread::spawn(move || loop {
            std::thread::sleep(std::time::Duration::from_millis(500));
            for slot in running.lock().unwrap().iter() {
                if let Some((t, i)) = slot {
                    if t.elapsed().as_secs() > 900 {
                        eprintln!("HARNESS ERROR: run index {i} of check {check_id} (VERIF_SEED={seed}) exceeded 900 s of wall clock");
                        std::process::exit(2);
                    }
                }
            }
        });
    }
    let mut handles = Vec::new();
    for tno in 0..threads {
        let running = running.clone();
        let skip = skip.clone();
        let progress_prefix = progress_prefix.clone();
        let next = next.clone();
        let stop = stop.clone();
        let agg = agg.clone();
        let known = known.clone();
        handles.push(std::thread::spawn(move || loop {
            if stop.load(Ordering::Relaxed) {
                break;
            }
            let i = next.fetch_add(1, Ordering::Relaxed);
            if i >= first + runs {
                break;
            }
            if start.elapsed().as_secs() >= max_secs {
                break;
            }
            let rs = rng::run_seed(seed, check.id(), i);
            if skip.contains(&i) {
                let mut a = agg.lock().unwrap();
                *a.discarded.entry("crashed_the_process".into()).or_insert(0) += 1;
                continue;
            }
            let run = gen_run(check, seed, i, tier);
            if let Some(p) = &progress_prefix {
                let _ = std::fs::write(format!("{p}.{tno}"), format!("{i}"));
            }
            let t_run = Instant::now();
            running.lock().unwrap()[tno] = Some((t_run, i));
            let o = exec_isolated(check, &run);
            running.lock().unwrap()[tno] = None;
            let mut a = agg.lock().unwrap();
            let dt = t_run.elapsed().as_secs_f64();
            if dt > a.slowest.0 {
                a.slowest = (dt, i);
            }
            a.evaluations += 1;
            a.ops_executed += o.ops_executed;
            let key = run.canonical_key();
            a.distinct_keys.insert(key);
            if o.nontrivial {
                a.nontrivial_keys.insert(key);
            }
            for st in &o.states {
                a.states.insert(*st);
            }
            for (k, v) in &o.counters {
                *a.counters.entry(k.clone()).or_insert(0) += v;
                *a.runs_with.entry(k.clone()).or_insert(0) += 1;
            }
            if let Some(d) = &o.discarded {
                *a.discarded.entry(d.clone()).or_insert(0) += 1;
            }
            if i < first + det_samples {
                a.log_hashes.insert(i, (rs, outcome_digest(&o)));
            }
            if a.samples.len() < 5 && o.nontrivial {
                a.samples.push(json!({"run_index": i, "cfg": run.cfg, "trace": run.short()}));
            }
            for v in &o.violations {
                if let Some(k) = match_known(v, &known) {
                    let e = a.known_hits.entry(k.id.clone()).or_insert((0, k.what.clone()));
                    e.0 += 1;
                }
            }
            if survey {
                for v in &o.violations {
                    let key = format!("{}/{}/{}/{}", v.property, v.clause, v.kind, v.sig);
                    let e = a.known_hits.entry(key).or_insert((0, String::new()));
                    e.0 += 1;
                    let tr = format!("{} || {:?} || {}", run.short().join(" ## "), run.cfg, v.detail);
                    if e.1.is_empty() || tr.len() < e.1.len() {
                        e.1 = tr;
                    }
                }
            } else if let Some(v) = first_unknown(&o, &known) {
                if a.violation.is_none() {
                    a.violation = Some((run.clone(), v.clone()));
                }
                stop.store(true, Ordering::Relaxed);
            }
        }));
    }
    for h in handles {
        h.join().expect("worker");
    }
    let mut a = Arc::try_unwrap(agg).ok().expect("agg").into_inner().unwrap();
    let main_wall = start.elapsed().as_secs_f64();

    // determinism self-test: re-execute the sampled runs, single-threaded, later, in other threads
    let mut det_checked = 0u64;
    let mut det_mismatch: Option<String> = None;
    if a.violation.is_none() {
        for (i, (rs, digest)) in a.log_hashes.iter() {
            let run = gen_run(check, seed, *i, tier);
            let o = exec_isolated(check, &run);
            det_checked += 1;
            let d2 = outcome_digest(&o);
            if &d2 != digest {
                det_mismatch = Some(format!("run index {i} seed {rs}: {digest} vs {d2}"));
                break;
            }
        }
    }
    if let Some(m) = &det_mismatch {
        eprintln!("HARNESS ERROR: nondeterministic execution: {m}");
    }

    // violation handling: confirm, minimise, replay file
    let mut violation_json = Value::Null;
    let mut exit = 0;
    if let Some((run, v)) = a.violation.take() {
        exec::want_backtrace(true);
        let confirm = exec_isolated(check, &run);
        let class = v.class();
        if !confirm.violations.iter().any(|x| x.class() == class) {
            if prop == "C20" {
                // for the reproducibility property an outcome that changes between two executions
                // of the same explicit run IS the violation
                let fv = Violation {
                    property: "C20".into(),
                    clause: "outcome_not_reproducible".into(),
                    kind: "mismatch".into(),
                    sig: "outcome_not_reproducible".into(),
                    triggers: vec![],
                    detail: format!("the same explicit run gave '{}' once and another outcome when executed again", v.detail.chars().take(300).collect::<String>()),
                    at_op: 0,
                };
                let path = write_replay(&replay_dir, &prop, &config, &run, &fv, run.ops.len(), 0);
                println!("violation: {} {} {}: {}", fv.property, fv.clause, fv.kind, fv.detail);
                println!("VIOLATION property={} replay={}", prop, path);
                violation_json = json!({"violation": fv.to_json(), "replay": path, "seed": run.seed});
                exit = 1;
            } else {
                eprintln!("HARNESS ERROR: violation did not reproduce on re-execution: {:?}", v);
                exit = 2;
            }
        } else {
            let budget = if tier == Tier::Quick { (1500, 40) } else { (6000, 180) };
            let (min_run, execs) = minimise(check, &run, &class, &known, budget.0, budget.1);
            let fin = exec_isolated(check, &min_run);
            let fv = fin.violations.iter().find(|x| x.class() == class).cloned().unwrap_or(v.clone());
            let path = write_replay(&replay_dir, &prop, &config, &min_run, &fv, run.ops.len(), execs);
            // replay twice
            let mut ok = true;
            for _ in 0..2 {
                let again = exec_isolated(check, &min_run);
                if !again.violations.iter().any(|x| x.class() == class) {
                    ok = false;
                }
            }
            if !ok && prop == "C20" {
                let fv2 = Violation { clause: "outcome_not_reproducible".into(), sig: "outcome_not_reproducible".into(), detail: format!("the minimised run does not give the same outcome twice; first outcome: {}", fv.detail.chars().take(300).collect::<String>()), ..fv.clone() };
                let path = write_replay(&replay_dir, &prop, &config, &min_run, &fv2, run.ops.len(), execs);
                println!("violation: {} {} {}: {}", fv2.property, fv2.clause, fv2.kind, fv2.detail);
                println!("VIOLATION property={} replay={}", prop, path);
                violation_json = json!({"violation": fv2.to_json(), "replay": path, "seed": run.seed});
                exit = 1;
            } else if !ok {
                eprintln!("HARNESS ERROR: minimised run does not replay deterministically");
                exit = 2;
            } else {
                println!("violation: {} {} {}: {}", fv.property, fv.clause, fv.kind, fv.detail);
                for l in min_run.short() {
                    println!("  {l}");
                }
                println!("  cfg {:?}", min_run.cfg);
                println!("VIOLATION property={} replay={}", prop, path);
                violation_json = json!({"violation": fv.to_json(), "replay": path, "seed": run.seed, "original_ops": run.ops.len(), "minimised_ops": min_run.ops.len()});
                exit = 1;
            }
        }
    }
    for (id, (n, what)) in &a.known_hits {
        let what: String = what.chars().take(if survey { 420 } else { 2000 }).collect();
        if survey {
            println!("KNOWN-FINDING: property={} {} [{}; matched {} runs]", prop, what, id, n);
        } else {
            // the driver prints one KNOWN-FINDING line per listed finding; this is the per-part count
            println!("known finding {id} matched {n} runs in this part");
        }
    }
    if let Some(m) = &det_mismatch {
        if prop == "C20" && exit == 0 {
            println!("violation: C20 outcome_not_reproducible: {m}");
            exit = 1;
            let i: u64 = m.split_whitespace().nth(2).and_then(|x| x.parse().ok()).unwrap_or(0);
            let run = gen_run(check, seed, i, tier);
            let fv = Violation { property: "C20".into(), clause: "outcome_not_reproducible".into(), kind: "mismatch".into(), sig: "outcome_not_reproducible".into(), triggers: vec![], detail: m.clone(), at_op: 0 };
            let path = write_replay(&replay_dir, &prop, &config, &run, &fv, run.ops.len(), 0);
            println!("VIOLATION property={} replay={}", prop, path);
            violation_json = json!({"violation": fv.to_json(), "replay": path, "seed": run.seed});
        } else if exit == 0 {
            exit = 2;
        }
    }

    let wall = start.elapsed().as_secs_f64();
    let stats = json!({
        "check": check.id(),
        "property": prop,
        "config": config,
        "guard_on": exec::seam::GUARD_ON,
        "tier": if tier == Tier::Quick { "quick" } else { "thorough" },
        "seed": seed,
        "evaluations": a.evaluations,
        "distinct": a.distinct_keys.len(),
        "distinct_nontrivial": a.nontrivial_keys.len(),
        "states": a.states.len(),
        "ops_executed": a.ops_executed,
        "counters": a.counters,
        "runs_with": a.runs_with,
        "discarded": a.discarded,
        "samples": a.samples,
        "known_hits": a.known_hits.iter().map(|(k, (n, w))| json!({"id": k, "runs": n, "what": w})).collect::<Vec<_>>(),
        "violation": violation_json,
        "determinism_checked": det_checked,
        "determinism_ok": det_mismatch.is_none(),
        "wall_s": wall,
        "main_wall_s": main_wall,
        "runs_per_hour": if main_wall > 0.0 { (a.evaluations as f64 / main_wall * 3600.0) as u64 } else { 0 },
        "slowest_run": {"seconds": a.slowest.0, "index": a.slowest.1},
        "rule": check.rule(),
        "fault_kinds": check.fault_kinds(),
        "enumerated": check.enumerated(tier).min(a.evaluations),
        "enumerated_complete": first == 0 && a.evaluations >= check.enumerated(tier) && check.enumerated(tier) > 0,
        "exit": exit,
    });
    if let Some(p) = out_path {
        std::fs::write(&p, serde_json::to_string_pretty(&stats).unwrap()).expect("write stats");
    }
    println!("slowest run: index {} took {:.1}s", a.slowest.1, a.slowest.0);
    println!(
        "done: {} runs, {} distinct non-trivial, {} states, {:.1}s, exit {}",
        a.evaluations,
        a.nontrivial_keys.len(),
        a.states.len(),
        wall,
        exit
    );
    exit
}

/// debugging aid: `simcheck dbg "add (p1 $0)" "union (p1 $0) = (p1 $1)"` runs the ops on an LS
/// e-graph and dumps it after every step.
fn cmd_dbg(ops: &[String]) -> i32 {
    use langs::*;
    use slotted_egraphs::*;
    let ops: Vec<String> = ops.to_vec();
    exec::want_backtrace(true);
    exec::in_fresh_thread(move || {
        let naming: u32 = std::env::var("SIM_NAMING").ok().and_then(|x| x.parse().ok()).unwrap_or(0);
        let mut s: sess::Sess<LS, ()> = sess::Sess::new(EGraph::new(()), naming);
        for o in &ops {
            println!("==== {o}");
            let r = exec::catch(|| {
                if let Some(rest) = o.strip_prefix("add ") {
                    let t = tm::parse_tm(rest).unwrap();
                    let h = s.add_term(&t, false);
                    println!("-> {h:?}");
                } else if let Some(rest) = o.strip_prefix("union ") {
                    let (a, b) = rest.split_once(" = ").unwrap();
                    let a = tm::parse_tm(a).unwrap();
                    let b = tm::parse_tm(b).unwrap();
                    let r = s.union_terms(&a, &b, true, false);
                    println!("-> {r}");
                }
                s.eg.dump();
                s.eg.check();
            });
            if let Err(p) = r {
                println!("PANIC {} at {} in {}", p.msg, p.loc, p.func);
                return 1;
            }
        }
        0
    })
}

