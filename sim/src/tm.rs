//! Simulator-owned terms with binders. Nothing in here uses the crate under test.
//!
//! A term is `op[:payload] $slot* kid*` where each kid may be prefixed by a binder list
//! `[$x ..]`. Slots are abstract numbers (`S`); a `Naming` (langs.rs) maps them to real slots.

use std::collections::{BTreeMap, BTreeSet};
use std::fmt;

pub type S = u32;

#[derive(Clone, Copy, Debug, PartialEq, Eq)]
pub struct OpSpec {
    pub name: &'static str,
    pub nslots: usize,
    /// number of binders per kid
    pub kids: &'static [usize],
    pub payload: bool,
}

pub const OPS: &[OpSpec] = &[
    OpSpec { name: "p1", nslots: 1, kids: &[], payload: false },
    OpSpec { name: "p2", nslots: 2, kids: &[], payload: false },
    OpSpec { name: "p3", nslots: 3, kids: &[], payload: false },
    OpSpec { name: "p4", nslots: 4, kids: &[], payload: false },
    OpSpec { name: "k", nslots: 0, kids: &[], payload: true },
    OpSpec { name: "u", nslots: 0, kids: &[0], payload: false },
    OpSpec { name: "b", nslots: 0, kids: &[0, 0], payload: false },
    OpSpec { name: "g", nslots: 1, kids: &[0], payload: false },
    OpSpec { name: "lam", nslots: 0, kids: &[1], payload: false },
    OpSpec { name: "let", nslots: 0, kids: &[1, 0], payload: false },
    OpSpec { name: "lam2", nslots: 0, kids: &[2], payload: false },
    // arithmetic language
    OpSpec { name: "num", nslots: 0, kids: &[], payload: true },
    OpSpec { name: "var", nslots: 1, kids: &[], payload: false },
    OpSpec { name: "add", nslots: 0, kids: &[0, 0], payload: false },
    OpSpec { name: "mul", nslots: 0, kids: &[0, 0], payload: false },
    OpSpec { name: "neg", nslots: 0, kids: &[0], payload: false },
    OpSpec { name: "sum", nslots: 0, kids: &[1], payload: false },
    OpSpec { name: "cst", nslots: 0, kids: &[], payload: true },
    OpSpec { name: "p5", nslots: 5, kids: &[], payload: false },
    OpSpec { name: "p6", nslots: 6, kids: &[], payload: false },
    // leaf whose payload is an interned Symbol (process-global interner), used by C20 only
    OpSpec { name: "sym", nslots: 0, kids: &[], payload: true },
    // ternary node of LS
    OpSpec { name: "t", nslots: 0, kids: &[0, 0, 0], payload: false },
    // a child before a binder (the binder is not the first slot of the node's shape)
    OpSpec { name: "h", nslots: 0, kids: &[0, 1], payload: false },
    // LA: (sumr r [x] b) = r * sum_x b
    OpSpec { name: "sumr", nslots: 0, kids: &[0, 1], payload: false },
    // LS: like g, but the child comes before the slot in the e-node
    OpSpec { name: "gr", nslots: 1, kids: &[0], payload: false },
];

pub fn op_index(name: &str) -> Option<u8> {
    OPS.iter().position(|o| o.name == name).map(|x| x as u8)
}

pub fn op(name: &str) -> u8 {
    op_index(name).unwrap_or_else(|| panic!("unknown op {name}"))
}

#[derive(Clone, PartialEq, Eq, Hash, PartialOrd, Ord)]
pub struct Kid {
    pub binders: Vec<S>,
    pub t: Tm,
}

#[derive(Clone, PartialEq, Eq, Hash, PartialOrd, Ord)]
pub struct Tm {
    pub op: u8,
    pub pay: u32,
    pub slots: Vec<S>,
    pub kids: Vec<Kid>,
}

impl Tm {
    pub fn spec(&self) -> &'static OpSpec {
        &OPS[self.op as usize]
    }
    pub fn name(&self) -> &'static str {
        self.spec().name
    }
    pub fn leaf(name: &str, slots: Vec<S>) -> Tm {
        let t = Tm { op: op(name), pay: 0, slots, kids: vec![] };
        t.assert_wf();
        t
    }
    pub fn pay(name: &str, pay: u32) -> Tm {
        Tm { op: op(name), pay, slots: vec![], kids: vec![] }
    }
    pub fn node(name: &str, slots: Vec<S>, kids: Vec<(Vec<S>, Tm)>) -> Tm {
        let t = Tm {
            op: op(name),
            pay: 0,
            slots,
            kids: kids.into_iter().map(|(b, t)| Kid { binders: b, t }).collect(),
        };
        t.assert_wf();
        t
    }
    pub fn assert_wf(&self) {
        let sp = self.spec();
        assert_eq!(sp.nslots, self.slots.len(), "{}", sp.name);
        assert_eq!(sp.kids.len(), self.kids.len(), "{}", sp.name);
        for (k, nb) in self.kids.iter().zip(sp.kids.iter()) {
            assert_eq!(k.binders.len(), *nb);
        }
    }

    pub fn size(&self) -> usize {
        1 + self.kids.iter().map(|k| k.t.size()).sum::<usize>()
    }

    pub fn depth(&self) -> usize {
        1 + self.kids.iter().map(|k| k.t.depth()).max().unwrap_or(0)
    }

    /// free slots in order of first occurrence
    pub fn free_vec(&self) -> Vec<S> {
        let mut out = Vec::new();
        let mut bound = Vec::new();
        self.free_rec(&mut bound, &mut out);
        out
    }
    fn free_rec(&self, bound: &mut Vec<S>, out: &mut Vec<S>) {
        for s in &self.slots {
            if !bound.contains(s) && !out.contains(s) {
                out.push(*s);
            }
        }
        for k in &self.kids {
            let n = bound.len();
            bound.extend(k.binders.iter().copied());
            k.t.free_rec(bound, out);
            bound.truncate(n);
        }
    }
    pub fn free(&self) -> BTreeSet<S> {
        self.free_vec().into_iter().collect()
    }

    /// all slot names occurring anywhere (free, bound, binder positions)
    pub fn all_names(&self, out: &mut BTreeSet<S>) {
        out.extend(self.slots.iter().copied());
        for k in &self.kids {
            out.extend(k.binders.iter().copied());
            k.t.all_names(out);
        }
    }

    /// Renames free slots through `m` (slots not in `m` stay) and gives every binder a new
    /// name from `fresh` (so no capture can happen).
    pub fn rename(&self, m: &BTreeMap<S, S>, fresh: &mut S) -> Tm {
        let mut env: Vec<(S, S)> = Vec::new();
        self.rename_rec(m, fresh, &mut env)
    }
    fn rename_rec(&self, m: &BTreeMap<S, S>, fresh: &mut S, env: &mut Vec<(S, S)>) -> Tm {
        let look = |s: S, env: &Vec<(S, S)>| -> S {
            for (a, b) in env.iter().rev() {
                if *a == s {
                    return *b;
                }
            }
            *m.get(&s).unwrap_or(&s)
        };
        let slots = self.slots.iter().map(|s| look(*s, env)).collect();
        let mut kids = Vec::new();
        for k in &self.kids {
            let n = env.len();
            let mut nb = Vec::new();
            for b in &k.binders {
                let f = *fresh;
                *fresh += 1;
                env.push((*b, f));
                nb.push(f);
            }
            let t = k.t.rename_rec(m, fresh, env);
            env.truncate(n);
            kids.push(Kid { binders: nb, t });
        }
        Tm { op: self.op, pay: self.pay, slots, kids }
    }

    /// Renames free slots only, keeping binder names (caller guarantees no capture).
    pub fn rename_keep_binders(&self, m: &BTreeMap<S, S>) -> Tm {
        let mut bound = Vec::new();
        self.rkb(m, &mut bound)
    }
    fn rkb(&self, m: &BTreeMap<S, S>, bound: &mut Vec<S>) -> Tm {
        let slots = self
            .slots
            .iter()
            .map(|s| if bound.contains(s) { *s } else { *m.get(s).unwrap_or(s) })
            .collect();
        let mut kids = Vec::new();
        for k in &self.kids {
            let n = bound.len();
            bound.extend(k.binders.iter().copied());
            let t = k.t.rkb(m, bound);
            bound.truncate(n);
            kids.push(Kid { binders: k.binders.clone(), t });
        }
        Tm { op: self.op, pay: self.pay, slots, kids }
    }

    /// Canonical form modulo injective renaming of free slots and alpha: free slots become
    /// 0,1,.. by first occurrence, binders become CANON_BOUND + nesting level.
    /// Returns (canonical term, args) with args[i] = original name of canonical slot i.
    pub fn canon(&self) -> (Tm, Vec<S>) {
        let mut args = Vec::new();
        let mut env = Vec::new();
        let t = self.canon_rec(&mut args, &mut env);
        (t, args)
    }
    fn canon_rec(&self, args: &mut Vec<S>, env: &mut Vec<S>) -> Tm {
        let look = |s: S, args: &mut Vec<S>, env: &Vec<S>| -> S {
            if let Some(p) = env.iter().rposition(|x| *x == s) {
                return CANON_BOUND + p as S;
            }
            if let Some(p) = args.iter().position(|x| *x == s) {
                return p as S;
            }
            args.push(s);
            (args.len() - 1) as S
        };
        let slots = self.slots.iter().map(|s| look(*s, args, env)).collect();
        let mut kids = Vec::new();
        for k in &self.kids {
            let n = env.len();
            let mut nb = Vec::new();
            for b in &k.binders {
                nb.push(CANON_BOUND + env.len() as S);
                env.push(*b);
            }
            let t = k.t.canon_rec(args, env);
            env.truncate(n);
            kids.push(Kid { binders: nb, t });
        }
        Tm { op: self.op, pay: self.pay, slots, kids }
    }

    /// alpha-equivalence with equal free names
    pub fn alpha_eq(&self, other: &Tm) -> bool {
        let (a, aa) = self.canon();
        let (b, bb) = other.canon();
        a == b && aa == bb
    }

    /// all subterms (self first); bodies of binders appear with the bound slot free.
    pub fn subterms(&self) -> Vec<Tm> {
        let mut out = Vec::new();
        self.subterms_rec(&mut out);
        out
    }
    fn subterms_rec(&self, out: &mut Vec<Tm>) {
        out.push(self.clone());
        for k in &self.kids {
            k.t.subterms_rec(out);
        }
    }

    /// subterms in bottom-up order (children before parents), without duplicates
    pub fn subterms_bottom_up(&self) -> Vec<Tm> {
        let mut out: Vec<Tm> = Vec::new();
        fn rec(t: &Tm, out: &mut Vec<Tm>) {
            for k in &t.kids {
                rec(&k.t, out);
            }
            if !out.contains(t) {
                out.push(t.clone());
            }
        }
        rec(self, &mut out);
        out
    }
}

pub const CANON_BOUND: S = 1 << 20;

impl fmt::Display for Tm {
    fn fmt(&self, f: &mut fmt::Formatter<'_>) -> fmt::Result {
        let sp = self.spec();
        let bare = self.slots.is_empty() && self.kids.is_empty();
        if !bare {
            write!(f, "(")?;
        }
        write!(f, "{}", sp.name)?;
        if sp.payload {
            write!(f, ":{}", self.pay)?;
        }
        for s in &self.slots {
            write!(f, " ${}", s)?;
        }
        for k in &self.kids {
            if !k.binders.is_empty() {
                write!(f, " [")?;
                for (i, b) in k.binders.iter().enumerate() {
                    if i > 0 {
                        write!(f, " ")?;
                    }
                    write!(f, "${}", b)?;
                }
                write!(f, "]")?;
            }
            write!(f, " {}", k.t)?;
        }
        if !bare {
            write!(f, ")")?;
        }
        Ok(())
    }
}

impl fmt::Debug for Tm {
    fn fmt(&self, f: &mut fmt::Formatter<'_>) -> fmt::Result {
        write!(f, "{}", self)
    }
}

// ---- parser for the textual form (used by replay files) ------------------------------------

pub struct Lexer<'a> {
    pub toks: Vec<&'a str>,
    pub pos: usize,
}

impl<'a> Lexer<'a> {
    pub fn new(s: &'a str) -> Lexer<'a> {
        let mut toks = Vec::new();
        let b = s.as_bytes();
        let mut i = 0;
        while i < b.len() {
            let c = b[i] as char;
            if c.is_whitespace() {
                i += 1;
            } else if "()[]=".contains(c) {
                toks.push(&s[i..i + 1]);
                i += 1;
            } else {
                let st = i;
                while i < b.len() && !(b[i] as char).is_whitespace() && !"()[]=".contains(b[i] as char) {
                    i += 1;
                }
                toks.push(&s[st..i]);
            }
        }
        Lexer { toks, pos: 0 }
    }
    pub fn peek(&self) -> Option<&'a str> {
        self.toks.get(self.pos).copied()
    }
    pub fn next(&mut self) -> Result<&'a str, String> {
        let t = self.toks.get(self.pos).copied().ok_or("unexpected end")?;
        self.pos += 1;
        Ok(t)
    }
    pub fn expect(&mut self, s: &str) -> Result<(), String> {
        let t = self.next()?;
        if t == s {
            Ok(())
        } else {
            Err(format!("expected {s}, got {t}"))
        }
    }
    pub fn done(&self) -> bool {
        self.pos >= self.toks.len()
    }
    pub fn slot(&mut self) -> Result<S, String> {
        let t = self.next()?;
        t.strip_prefix('$')
            .and_then(|x| x.parse().ok())
            .ok_or_else(|| format!("bad slot {t}"))
    }
    pub fn term(&mut self) -> Result<Tm, String> {
        let t = self.next()?;
        let paren = t == "(";
        let head = if paren { self.next()? } else { t };
        let (name, pay) = match head.split_once(':') {
            Some((n, p)) => (n, p.parse::<u32>().map_err(|e| format!("{e}"))?),
            None => (head, 0),
        };
        let opi = op_index(name).ok_or_else(|| format!("unknown op {name}"))?;
        let sp = &OPS[opi as usize];
        let mut slots = Vec::new();
        for _ in 0..sp.nslots {
            slots.push(self.slot()?);
        }
        let mut kids = Vec::new();
        for nb in sp.kids {
            let mut binders = Vec::new();
            if *nb > 0 {
                self.expect("[")?;
                for _ in 0..*nb {
                    binders.push(self.slot()?);
                }
                self.expect("]")?;
            }
            let t = self.term()?;
            kids.push(Kid { binders, t });
        }
        if paren {
            self.expect(")")?;
        }
        Ok(Tm { op: opi, pay, slots, kids })
    }
}

pub fn parse_tm(s: &str) -> Result<Tm, String> {
    let mut lx = Lexer::new(s);
    let t = lx.term()?;
    if !lx.done() {
        return Err(format!("trailing input in {s}"));
    }
    Ok(t)
}

#[cfg(test)]
mod tests {
    use super::*;
    #[test]
    fn roundtrip() {
        let s = "(b (p2 $0 $1) (let [$7] (lam2 [$1 $2] (p3 $1 $2 $7)) k:5))";
        let t = parse_tm(s).unwrap();
        assert_eq!(t.to_string(), s);
        assert_eq!(t.free_vec(), vec![0, 1]);
        let (c, args) = t.canon();
        assert_eq!(args, vec![0, 1]);
        let t2 = parse_tm("(b (p2 $5 $3) (let [$1] (lam2 [$9 $8] (p3 $9 $8 $1)) k:5))").unwrap();
        assert_eq!(t2.canon().0, c);
        assert_eq!(t2.canon().1, vec![5, 3]);
    }
}
