#!/bin/bash
# usage: par_mutest.sh <k> <patch.diff> <prop> [<prop> ...]
# Like mutest.sh, but on private copies /tmp/par/<k>/{repo,verif} of /repo and /verif (made from the
# current working trees, refreshed on every call), so that several seeded changes can be run in parallel
# and /repo itself is never modified. Prints CAUGHT / MISSED / ERROR per property. Scratch only: nothing
# registered in MANIFEST.json uses it.
k="$1"; patch="$2"; shift 2
R=/tmp/par/$k; mkdir -p $R
rsync -a --delete --exclude target --exclude .git /repo/ $R/repo/
rsync -a --delete --exclude target --exclude work --exclude .git --exclude seeded --exclude replays /verif/ $R/verif/
mkdir -p $R/verif/replays
sed -i "s#\"/repo#\"$R/repo#g" $R/verif/sim/Cargo.toml
cd $R/repo || exit 2
if ! patch -p1 --dry-run -s < "$patch" >/dev/null 2>&1; then echo "PATCH DOES NOT APPLY: $patch"; exit 2; fi
patch -p1 -s < "$patch"
for p in "$@"; do
  out=$(cd $R/verif && VERIF_TIER=quick ./check "$p" ${MUTEST_TIER:-quick} 2>&1); code=$?
  if [ $code -eq 1 ] && echo "$out" | grep -q "^VIOLATION property="; then
     echo "CAUGHT $p $(basename $(dirname $patch))/$(basename $patch): $(echo "$out" | grep -m1 '^violation:' | cut -c1-220)"
  elif [ $code -eq 0 ]; then echo "MISSED $p $(basename $(dirname $patch))/$(basename $patch)"
  else echo "ERROR($code) $p $patch: $(echo "$out" | grep -E 'HARNESS|error' | head -3 | cut -c1-300)"; fi
done
exit 0
