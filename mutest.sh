#!/bin/bash
# usage: mutest.sh <patch.diff> <prop> [<prop> ...]   -- applies the patch to /repo, runs the quick checks, reverts.
# Prints one line per property: CAUGHT / MISSED / ERROR. Never leaves /repo modified.
patch="$1"; shift
cd /repo || exit 2
if [ -n "$(git status --porcelain -- src slotted-egraphs-derive)" ]; then echo "repo dirty"; exit 2; fi
if ! git apply --check "$patch" 2>/dev/null; then echo "PATCH DOES NOT APPLY: $patch"; exit 2; fi
git apply "$patch"
for p in "$@"; do
  out=$(cd /verif && VERIF_TIER=quick ./check "$p" ${MUTEST_TIER:-quick} 2>&1); code=$?
  if [ $code -eq 1 ] && echo "$out" | grep -q "^VIOLATION property="; then
     echo "CAUGHT $p $(basename $(dirname $patch))/$(basename $patch): $(echo "$out" | grep -m1 '^violation:' | cut -c1-220)"
  elif [ $code -eq 0 ]; then echo "MISSED $p $(basename $(dirname $patch))/$(basename $patch)"
  else echo "ERROR($code) $p $patch: $(echo "$out" | grep -E 'HARNESS|error' | head -3 | cut -c1-300)"; fi
done
git checkout -- src slotted-egraphs-derive
# evidence / replay files written during mutant runs are not kept
cd /verif && git checkout -- evidence 2>/dev/null; git clean -fdq replays 2>/dev/null
exit 0
