use slotted_egraphs::*;

define_language! {
    pub enum Lm {
        Lam(Bind<AppliedId>) = "lam",
        App(AppliedId, AppliedId) = "app",
        Var(Slot) = "var",
    }
}

#[test]
fn side() {
    let mut eg: EGraph<Lm> = EGraph::default();
    let a = eg.add_expr(RecExpr::parse("(lam $y (app (var $y) (var $x)))").unwrap());
    let a = eg.find_applied_id(&a);
    let slot = *eg.slots(a.id).iter().next().unwrap();
    let ex = Extractor::<Lm, AstSize>::new(&eg, AstSize);
    let t1 = ex.extract(&a, &eg);
    println!("{t1}");
    let Lm::Lam(b) = &t1.node else { panic!() };
    let bound = b.slot;
    let q = AppliedId::new(a.id, SlotMap::from_pairs(&[(slot, bound)]));
    let t2 = ex.extract(&q, &eg);
    println!("{t2}");
    let back = lookup_rec_expr(&t2, &eg);
    println!("{back:?} vs {q:?}");
    assert!(eg.eq(&back.unwrap(), &q));
}
