use slotted_egraphs::*;

define_language! {
    pub enum LA {
        Var(Slot) = "var",
        Add(AppliedId, AppliedId) = "add",
        Neg(AppliedId) = "neg",
        Let(Bind<AppliedId>, AppliedId) = "let",
        Num(u32),
    }
}

#[test]
fn d9() {
    let mut eg: EGraph<LA> = EGraph::default();
    let t: RecExpr<LA> = RecExpr::parse("(let $2 (let $1 (add (var $2) (neg (var $2))) 0) (var $0))").unwrap();
    let h = eg.add_expr(t.clone());
    let rules: Vec<Rewrite<LA>> = vec![Rewrite::new("add-neg", "(add ?a (neg ?a))", "0"), Rewrite::new("add-comm", "(add ?a ?b)", "(add ?b ?a)")];
    apply_rewrites(&mut eg, &rules);
    eg.check();
    eg.dump();
    #[cfg(feature = "explanations")]
    {
        let a: RecExpr<LA> = RecExpr::parse("(add (var $2) (neg (var $2)))").unwrap();
        let b: RecExpr<LA> = RecExpr::parse("0").unwrap();
        let _ = eg.explain_equivalence(a, b);
        let a: RecExpr<LA> = RecExpr::parse("(let $1 (add (var $2) (neg (var $2))) 0)").unwrap();
        let b: RecExpr<LA> = RecExpr::parse("(let $f241 0 0)").unwrap();
        let _ = eg.explain_equivalence(a, b);
    }
    eg.dump();
    eg.check();
    let ex = Extractor::<LA, AstSize>::new(&eg, AstSize);
    let small = ex.extract(&eg.find_applied_id(&h), &eg);
    println!("small = {small}");
}
