#!/usr/bin/env python3
"""Regenerates MANIFEST.json from the table below (kept next to the driver's PLAN)."""
import json, re, subprocess

CLAIMED = {
 "C01": ("sess", "7 C01", "seeded simulation of add/union/probe histories under sampled hash order, fresh stride, buggify, probes, naming and handle age; every equality the e-graph reports (all relative renamings of all tracked pairs in one class, all dropped slots) must be derivable in the brute-force ground nominal congruence closure M_cc with pool 3m+1 (alarms re-derived with pool +2/+4 before reporting)",
         "M_cc (sim/src/oracle/cc.rs) encodes the intended semantics; pool-size bound 3m+1 is an argument guarded by escalation; sampling"),
 "C02": ("sess", "7 C02", "same runs, opposite direction, checked immediately after every union returns: every pair M_cc derives (enumerated from the oracle's classes) must compare equal, every M_cc-redundant slot must be gone from find_applied_id",
         "any pool size is sound for this direction; sampling of instances above 12 per term"),
 "C08": ("sess", "7 C08", "seeded simulation in the default and the checks build: after every single operation no panic / fuel exhaustion, EGraph::check passes, every listed e-node looks up to its class, no e-node shape in two live classes, e-node slots cover class slots, find is idempotent; faults K1-K5 incl. mid-history probes and skipped path compression",
         "fuel limit 200000 rebuild ticks per operation stands in for non-termination; sampling"),
 "C09": ("sess", "7 C09", "seeded sess histories followed by candidate terms that are known-present (alpha-renamed, injectively renamed, a subterm replaced by an M_cc-equal instance), known-absent or unknown: lookup_rec_expr succeeds exactly when add_expr creates no class, both agree with the existing invocation, returned slots = free slots minus M_cc-redundant ones, lookup leaves the fingerprint unchanged",
         "M_cc decides 'already represented' and redundancy; sampling"),
 "C10": ("grp+sess", "7 C10", "generator sets on up to 4 slots enumerated completely (quick: up to 2 generators on 4 slots, 3 on 3; thorough: all triples on 4 slots), random sets on 4-6 slots; through unions on a k-slot leaf (eq for every permutation of S_k after every union) and through the cfg-guarded group wrapper (contains, all_perms, count, orbit, add_set growth), each under sampled hash order, stride, naming, buggify and generator order, against brute-force subgroup closure",
         "brute-force closure M_group; exhaustive only in the enumerated generator dimension, schedules are sampled"),
 "C11": ("sess", "7 C11", "each seeded history is executed twice with identical knobs but different slot namings (numeric ascending vs reversed / textual / mixed / scrambled); sampled eq-matrix under all relative renamings, live classes, per-term kept slot sets and symmetry counts must agree",
         "answer-level comparison only (internal orientation may differ); analysis data and extraction cost are compared in C14/C06 runs, not here; sampling"),
 "C12": ("sess", "7 C12", "each seeded set of insertions and equations is executed in 4 schedules (given order and 3 seeded permutations of all steps with orientation flips, alternating hash orders); eq-matrix, live classes, per-term slot count and symmetry count must agree",
         "cross-run agreement; sampling"),
 "C13": ("sess", "7 C13", "history checker over long seeded histories (25 quick / 40 thorough operations): after every operation every invocation and every equal pair recorded earlier is re-queried (still equal, canonicalisable, alive, equal to itself), slot sets only shrink, progress moves lexicographically in the documented direction; skipped path compression and probes act on the old handles",
         "extraction from old handles is covered by C06 runs; sampling of recorded pairs (<= 400 per run)"),
 "C17": ("thr", "7 C17", "1-4 real threads under a baton scheduler that decides every context switch from an explicit schedule; programs of fresh / numeric / named with adversarial names / print-then-parse; per-thread slot-table model (fresh is new, names functional and injective, print-parse identity) and comparison of each thread's observations with the same program run alone",
         "per-thread model M_slot; panics 'fresh slot counter exhausted' are legitimate (u32 counter); sampling"),
}
NOT_BUILT = {}
NOT_APPLICABLE = {
 "C16": "weak_shape, slot-occurrence lists and to_syntax/from_syntax are pure functions of one e-node value: no schedule, clock, shared state or fault reaches them, so a simulator has nothing to vary (DESIGN.md section 8); their consequences are exercised through C01/C02/C08/C09",
 "C18": "printing and parsing are pure functions of a term or byte string; no interleaving, timing or fault dimension exists (DESIGN.md section 8)",
 "C19": "SlotMap is a value type whose operations are pure; operation histories are just longer inputs, no nondeterminism or fault touches it (DESIGN.md section 8)",
}
ALL = ["C%02d" % i for i in range(1, 21)]

def main():
    commits = subprocess.run(["git", "-C", "/repo", "log", "--format=%h %s"], capture_output=True, text=True).stdout.splitlines()
    hooks = [c.split()[0] for c in commits if c.split(" ", 1)[1].startswith("verif hooks")]
    checks = []
    for pid, (engine, ref, text, note) in sorted(CLAIMED.items()):
        checks.append({
            "property_id": pid,
            "quick_cmd": f"./check {pid} quick",
            "thorough_cmd": f"./check {pid} thorough",
            "evidence_file": f"/verif/evidence/{pid}.json",
            "replay_cmd_template": f"./check {pid} --replay {{path}}",
            "engine": engine,
            "level_claimed": {"category": "exploration", "text": text, "design_ref": "DESIGN.md section " + ref},
            "level_note": note,
            "technique": "deterministic simulation with fault injection: seeded search over histories x schedules x faults, oracle = independent reference model",
        })
    na = [{"property_id": k, "reason": v} for k, v in sorted(NOT_APPLICABLE.items())]
    for pid in ALL:
        if pid not in CLAIMED and pid not in NOT_APPLICABLE:
            na.append({"property_id": pid, "reason": NOT_BUILT.get(pid, "check designed (DESIGN.md section 7) but not built yet in this session; not claimed")})
    m = {
        "version": 1,
        "setup_cmd": "./check --setup",
        "hooks": {
            "guard": "slotted_egraphs_verif",
            "enable": "RUSTFLAGS=--cfg slotted_egraphs_verif (set by ./check for every guard-on configuration; the simulator crate /verif/sim depends on /repo by path)",
            "baseline_off_cmd": "cd /repo && cargo test --workspace --no-fail-fast --offline",
            "source_commits": hooks,
            "add_only": True,
        },
        "engines": [
            {"name": "thr", "path": "sim/src/sched.rs", "serves_properties": ["C17"], "kind_free_text": "real OS threads parked and released one step at a time by a baton scheduler that follows the explicit schedule of the run"},
            {"name": "grp", "path": "sim/src/checks/group.rs", "serves_properties": ["C10"], "kind_free_text": "direct exercise of the crate-private permutation group through the cfg-guarded VGroup wrapper"},
            {"name": "sess", "path": "sim/src/sess.rs", "serves_properties": ["C01", "C02", "C08", "C09", "C11", "C12", "C13"], "kind_free_text": "one real EGraph driven by an explicit trace in a fresh thread; hash order, fresh stride, buggify, probes injected through cfg-guarded seams"},
        ],
        "checks": checks,
        "not_applicable": sorted(na, key=lambda x: x["property_id"]),
        "notes": "All checks: exit 0 clean, 1 + 'VIOLATION property=<id> replay=<path>' on a violation, 2 on harness error (nondeterminism, build failure). VERIF_SEED selects the seed (default 1). Genuine defects found and repaired are listed in known_findings.txt.",
    }
    json.dump(m, open("/verif/MANIFEST.json", "w"), indent=1)

main()
