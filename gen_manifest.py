#!/usr/bin/env python3
"""Regenerates MANIFEST.json from the table below (kept next to the driver's PLAN)."""
import json, re, subprocess

CLAIMED = {
 "C01": ("sess", "7 C01", "seeded simulation of add/union/probe histories under sampled hash order, fresh stride, buggify, probes, naming (incl. the name of the very next fresh slot) and handle age, a third of the runs with an Analysis attached (two kinds of worklist entries), half of those with a modify hook (g(s, x) = x: unions from inside add; M_cc is given the schema for every tracked g-term); every equality the e-graph reports (all relative renamings of all tracked pairs in one class, all dropped slots) must be derivable in the brute-force ground nominal congruence closure M_cc with pool 3m+1 (alarms re-derived with pool +2/+4 before reporting)",
         "M_cc (sim/src/oracle/cc.rs) encodes the intended semantics; pool-size bound 3m+1 is an argument guarded by escalation; sampling"),
 "C02": ("sess", "7 C02", "same runs (incl. the runs with an Analysis and the parallel-contexts bias: two parents C[A], C[B] with an asymmetric sibling, then A = B and a symmetry), opposite direction, checked immediately after every union returns: every pair M_cc derives (enumerated from the oracle's classes) must compare equal, every M_cc-redundant slot must be gone from find_applied_id",
         "any pool size is sound for this direction; sampling of instances above 12 per term"),
 "C08": ("sess", "7 C08", "seeded simulation in the default and the checks build: after every single operation (sess histories over LS, one in ten over 6-12 slots with classes of up to 12 parameters, a third with an Analysis; part C08R: rewriting, Runner, raw and self-referential unions over LA with an Analysis and its modify hook; extraction as a probe) no panic / fuel exhaustion / process crash, EGraph::check passes, every listed e-node looks up to its class, no e-node shape in two live classes, e-node slots cover class slots, find is idempotent; faults K1-K5 incl. mid-history probes and skipped path compression",
         "fuel limit 20000000 rebuild ticks per operation stands in for non-termination (2500 + discard in the checks build); runs exceeding the combinatorial work budget are discarded; sampling"),
 "C09": ("sess", "7 C09", "seeded sess histories followed by candidate terms that are known-present (alpha-renamed, injectively renamed, a subterm replaced by an M_cc-equal instance), known-absent or unknown; and (one run in 40) parents over a symmetric leaf with up to 24^3 group-compatible variants, judged by brute-force subgroup closure: lookup_rec_expr succeeds exactly when add_expr creates no class, both agree with the existing invocation, returned slots = free slots minus M_cc-redundant ones, lookup leaves the fingerprint unchanged; part C09R: after every iteration of the LA rewriting workload inserted terms (alpha-renamed) and the smallest term of their class are looked up and inserted again (found, equal to the old handle, no class allocated, canonical slots)",
         "M_cc decides 'already represented' and redundancy; sampling"),
 "C10": ("grp+sess", "7 C10", "generator sets on up to 4 slots enumerated completely (quick: up to 2 generators on 4 slots, 3 on 3; thorough: all triples on 4 slots), random sets on 4-6 slots; through unions on a k-slot leaf (eq for every permutation of S_k after every union), through a redundancy path (a slot of the symmetric leaf is made redundant; old and new handles against M_cc) and through the cfg-guarded group wrapper (contains, all_perms, count, orbit, add_set growth), each under sampled hash order, stride, naming, buggify and generator order, against brute-force subgroup closure",
         "brute-force closure M_group; exhaustive only in the enumerated generator dimension, schedules are sampled"),
 "C11": ("sess", "7 C11", "each seeded history is executed twice with identical knobs but different slot namings (numeric ascending vs reversed / textual / mixed / scrambled / names of the crate's own $f<n> form, spelled up front, lazily right before use, or exactly the name of the next fresh slot; rule slots spelled like internal class slots); part C11R: the C03 rewriting workload under two namings, compared after every operation incl. analysis data and best extraction cost; sampled eq-matrix under all relative renamings, live classes, per-term kept slot sets and symmetry counts must agree",
         "answer-level comparison only; internal orientation may differ; the b[x := t] rule is excluded from C11R (tie-break by hash order of the representative); sampling"),
 "C12": ("sess", "7 C12", "each seeded set of insertions and equations (one in ten over 6-12 slots; a third with an Analysis; parallel-contexts bias) is executed in 4 schedules (given order and 3 seeded permutations of all steps with orientation flips, alternating hash orders); eq-matrix, live classes, per-term slot count and symmetry count must agree",
         "cross-run agreement; sampling"),
 "C13": ("sess", "7 C13", "history checker over long seeded histories (25 quick / 40 thorough operations; one in ten over 6-12 slots, a third with an Analysis; part C13R: rewriting histories over LA): after every operation every invocation and every equal pair recorded earlier is re-queried (still equal - including every symmetry of every tracked term -, canonicalisable, alive, equal to itself, extractable), slot sets only shrink, progress moves lexicographically in the documented direction; skipped path compression and probes act on the old handles",
         "sampling of recorded pairs (<= 600 per run)"),
 "C17": ("thr", "7 C17", "1-4 real threads under a baton scheduler that decides every context switch from an explicit schedule; programs of fresh / numeric / named with adversarial names / print-then-parse; per-thread slot-table model (fresh is new, names functional and injective, print-parse identity) and comparison of each thread's observations with the same program run alone",
         "per-thread model M_slot; panics 'fresh slot counter exhausted' are legitimate (u32 counter); sampling"),
 "C03": ("rw", "7 C03", "seeded start terms over LA (arithmetic mod p in {3,5,7}; a summation binder over {0,1}, a let binder, a weighted sum whose first child precedes its binder; many start terms are instances of rule left sides), 1-6 iterations of apply_rewrites or Runner::run with seeded subsets of 35 model-valid rules (validated against M_field at start-up; conditional rules through the simulator's own condition and through the crate's Rewrite::new_if / and / not / slot_free_in; two rules conditioned on EGraph::eq of two bindings with paired true/false instances in one e-graph; the substitution form b[x := t]; a repeated free pattern slot; near-instances of repeated-variable rules whose second occurrence has permuted slots; a third user slot in a quarter of the runs; in a third of the runs unconditional rules are built by the crate's Rewrite::new; in a quarter the Rewrite values are built once per run and applied at every step), both substitution methods, constant-folding modify hook, probes from inside appliers and Analysis::make; after every iteration every e-node of every class (<= 3 slots) is evaluated against its class table under all environments and two assignments of its redundant slots, every inserted term is evaluated directly",
         "M_field evaluator and table construction (sim/src/oracle/field.rs); classes with more than 3 slots or without a finite term are not evaluated; sampling"),
 "C04": ("rw", "7 C04", "seeded left/right patterns over LS, a planted instance (literal, only up to equality via a balanced union, with a symmetric child, or with a repeated variable whose occurrences are equal only through an asserted symmetry), optionally in a class made bigger by further balanced unions, optional auxiliary rule that merges the matched class away inside the same call, rule built with the crate's Rewrite::new in half of the runs, the same Rewrite values applied to a second e-graph first in a quarter of the runs; after one apply_rewrites the right instance must be represented and equal to the left instance; scale scenario (one run in 1500): 1200-6200 instances of one left side in one call, every one must fire",
         "scope as in the statement (bound slots bound once and not used free; e-graphs with a redundant slot are skipped and counted); additionally the right side introduces no free slot that the left side lacks (such a slot is quantified independently of slots hidden in variable bindings); sampling"),
 "C05": ("rw", "7 C05", "seeded sess histories, then patterns abstracted from the history's terms (repeated variables, binders, two slots identified non-injectively, e-node patterns whose children share slots) and multi-patterns with shuffled equations (a second root that shares child variables, leaf equations, two slots identified across the whole multi-pattern); every returned substitution is validated by bottom-up lookup (plus eq per equation for multi-patterns); fingerprint unchanged by matching; part C05R: the same validation for the left patterns of the LA rule pool after every iteration of the rewriting workload",
         "multi-patterns are built through the crate's MultiPattern::parse (its fields are private); sampling"),
 "C06": ("sess", "7 C06", "seeded long histories over LS and rewriting runs over LA (part C06R) (cyclic classes, redundant slots, symmetric classes), three strictly monotone cost functions; every live class with a finite term is extracted under the identity, a renamed and an own-slot-permuting invocation, one with the numeric shape names $0, $1, .. as arguments, one whose argument is spelled like a bound slot shown by an earlier result of the same extractor and one whose argument is spelled like the very next fresh slot; a stack overflow or abort inside extraction is attributed and reported; membership by lookup_rec_expr + eq, cost recomputed on the term, minimality against value iteration M_cost, free slots of the result",
         "M_cost value iteration over enodes(); classes without a finite term are out of scope; sampling"),
 "C07": ("expl", "7 C07", "explanations build: seeded histories with add_syn_expr / union_justified (a quarter of them after another e-graph with the same class ids but other equations and justifications lived and died in the same thread), (part C07R) single rule applications on planted instances, and (part C07S) saturation runs over LA (apply_rewrites / Runner::run with the C03 rule pool, conditional rules, rules that move terms under binders) after which inserted terms are explained against the smallest term of their class and against each other; for sampled equal pairs under all relative renamings, and for congruent query terms that were never inserted, explain_equivalence must return and the proof DAG is re-checked node by node on terms by the independent checker M_proof; explicit leaves must be instances of an asserted equation or of the applied rule, with their justification; the conclusion must be the queried pair",
         "M_proof reads proofs only through ProvenEqRaw::proof/equ and get_syn_expr; C07S runs without the b[x := t] rule and without the modify hook; sampling"),
 "C14": ("rw", "7 C14", "seeded LA histories of insertions, raw unions (runs without modify) and rewrite iterations with the simulator's analysis (min size, min depth, constant mod p with modify hook, a bounded height joined with max that grows along cycles); after every operation every live class's datum is recomputed as the join of make over its e-nodes, size equals value-iteration min cost, constants equal the class's model table, equal invocations share one datum",
         "in runs with raw (not model-valid) unions the constant component is excluded (make is not monotone once two constants are joined); sampling"),
 "C15": ("rw", "7 C15", "Runner::run, run_eqsat, bare apply_rewrites loops and a symmetry-growth loop under seeded iteration/node/time limits, a simulated clock (stalled, auto-step per read, jumps inside searchers and between iterations) a hook failing at a seeded iteration and a hook that inserts a further left-side instance at a seeded iteration; resumed runners (stop reason cleared, further term, other rules, second report judged too); unconditional rules through the crate's Rewrite::new in a third of the runs while the recheck after Saturated always uses simulator-owned rules; scale scenario (one run in 1500): 4200-6700 summands and the commutativity rule, saturation verified without the matcher; truth table of the stop reason in the final state (strict for Runner, as coded >= for run_eqsat), one more application after Saturated changes nothing, apply_rewrites == false implies an unchanged independent fingerprint (no use of progress()), iteration bound, report node count",
         "the clock seam replaces std::time::Instant in guard-on builds; no liveness claim in time, only in iterations; sampling"),
 "C20": ("thr", "7 C20", "2-3 replica threads replay one history step by step under the baton scheduler next to 0-3 noise threads (own e-graphs, symbol interning, allocation); transcripts (handles, class ids, slot names, e-node listing order, match and multi-match lists, rewrite results, dumps, extracted terms, explanations) must be identical among replicas, to a solo replay and, for a sixth of the runs, to a replay in a child process with another interning order; run in the guard-off build (shipped hasher), the guard-on build and the explanations build; part C20A: the LA rewriting workload with the analysis and its modify hook executed twice in fresh threads, transcripts compared; an outcome that differs between two executions of the same run is itself a violation",
         "EGraph::dump output (stdout) is not captured; the open known finding on Symbol interning order is matched only for runs with Symbol payloads in the cross-process clause; sampling"),
}
NOT_BUILT = {}
NOT_APPLICABLE = {
 "C16": "weak_shape, slot-occurrence lists and to_syntax/from_syntax are pure functions of one e-node value: no schedule, clock, shared state or fault reaches them, so a simulator has nothing to vary (DESIGN.md section 8); their consequences are exercised through C01/C02/C08/C09",
 "C18": "printing and parsing are pure functions of a term or byte string; no interleaving, timing or fault dimension exists (DESIGN.md section 8)",
 "C19": "SlotMap is a value type whose operations are pure; operation histories are just longer inputs, no nondeterminism or fault touches it (DESIGN.md section 8)",
}
ALL = ["C%02d" % i for i in range(1, 21)]

def main():
    commits = subprocess.run(["git", "-C", "/repo", "log", "--format=%h %s"], capture_output=True, text=True).stdout.splitlines()
    hooks = [c.split()[0] for c in commits if c.split(" ", 1)[1].startswith("verif hooks")]
    checks = []
    for pid, (engine, ref, text, note) in sorted(CLAIMED.items()):
        checks.append({
            "property_id": pid,
            "quick_cmd": f"./check {pid} quick",
            "thorough_cmd": f"./check {pid} thorough",
            "evidence_file": f"/verif/evidence/{pid}.json",
            "replay_cmd_template": f"./check {pid} --replay {{path}}",
            "engine": engine,
            "level_claimed": {"category": "exploration", "text": text, "design_ref": "DESIGN.md section " + ref},
            "level_note": note,
            "technique": "deterministic simulation with fault injection: seeded search over histories x schedules x faults, oracle = independent reference model",
        })
    na = [{"property_id": k, "reason": v} for k, v in sorted(NOT_APPLICABLE.items())]
    for pid in ALL:
        if pid not in CLAIMED and pid not in NOT_APPLICABLE:
            na.append({"property_id": pid, "reason": NOT_BUILT.get(pid, "check designed (DESIGN.md section 7) but not built yet in this session; not claimed")})
    m = {
        "version": 1,
        "setup_cmd": "./check --setup",
        "hooks": {
            "guard": "slotted_egraphs_verif",
            "enable": "RUSTFLAGS=--cfg slotted_egraphs_verif (set by ./check for every guard-on configuration; the simulator crate /verif/sim depends on /repo by path)",
            "baseline_off_cmd": "cd /repo && cargo test --workspace --no-fail-fast --offline",
            "source_commits": hooks,
            "add_only": True,
        },
        "engines": [
            {"name": "rw", "path": "sim/src/checks/rw.rs", "serves_properties": ["C03", "C04", "C05", "C08", "C11", "C14", "C15"], "kind_free_text": "real rewriting (apply_rewrites, Runner, run_eqsat) over the simulator's languages with simulator-owned searchers, appliers, conditions, analysis and hooks as injection seams"},
            {"name": "expl", "path": "sim/src/checks/explain.rs", "serves_properties": ["C07"], "kind_free_text": "explanations build; independent proof checker on terms"},
            {"name": "thr", "path": "sim/src/sched.rs", "serves_properties": ["C17", "C20"], "kind_free_text": "real OS threads parked and released one step at a time by a baton scheduler that follows the explicit schedule of the run"},
            {"name": "grp", "path": "sim/src/checks/group.rs", "serves_properties": ["C10"], "kind_free_text": "direct exercise of the crate-private permutation group through the cfg-guarded VGroup wrapper"},
            {"name": "sess", "path": "sim/src/sess.rs", "serves_properties": ["C01", "C02", "C06", "C08", "C09", "C11", "C12", "C13"], "kind_free_text": "one real EGraph driven by an explicit trace in a fresh thread; hash order, fresh stride, buggify, probes injected through cfg-guarded seams"},
        ],
        "checks": checks,
        "not_applicable": sorted(na, key=lambda x: x["property_id"]),
        "notes": "All checks: exit 0 clean, 1 + 'VIOLATION property=<id> replay=<path>' on a violation, 2 on harness error (nondeterminism, build failure). VERIF_SEED selects the seed (default 1). Genuine defects found and repaired are listed in known_findings.txt.",
    }
    json.dump(m, open("/verif/MANIFEST.json", "w"), indent=1)

main()
