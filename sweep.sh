#!/bin/bash
# usage: sweep.sh <bindir> <tier> <seed-list> <prop> [<prop> ...]
# Background exploration with other VERIF_SEED values, from binaries copied aside (so that changes applied to
# /repo meanwhile do not reach it). Results are leads only; evidence comes from ./check in /verif.
B=$1; T=$2; SEEDS=$3; shift 3
for s in $SEEDS; do for p in "$@"; do
  out=$(VERIF_PREBUILT=$B VERIF_SEED=$s VERIF_THREADS=${VERIF_THREADS:-6} ./check $p $T 2>&1); code=$?
  echo "seed=$s $p $T exit=$code $(echo "$out" | grep -E '^violation:|^VIOLATION|HARNESS|KNOWN' | head -3 | cut -c1-400)"
done; done
