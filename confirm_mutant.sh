#!/bin/bash
# usage: confirm_mutant.sh <PROP> <n>    (agent worktree /tmp/mut/<PROP>, mutation m<n>.diff, demo demo_<PROP>_<n>.rs)
# Confirms independently: (1) compiles + the 82 baseline tests still pass with the change, (2) demo fails with it,
# (3) demo passes without it. Writes /verif/seeded/<PROP>-m<n>/{patch.diff,demo.rs,meta.json,confirm.log}
P=$1; N=$2; ROUND=${3:-}; WT=/tmp/mut${ROUND}/$P; M=$WT/MUTATIONS
OUT=/verif/seeded/$P${ROUND:+-r$ROUND}-m$N; mkdir -p $OUT
cd $WT || exit 2
git checkout -q -- src slotted-egraphs-derive
cp $M/demo_${P}_$N.rs tests/demo_${P}_$N.rs 2>/dev/null
LOG=$OUT/confirm.log; : > $LOG
FEAT=""; [ "$P" = "C07" ] && FEAT="--features explanations"
echo "== demo without mutation" >> $LOG
cargo test --offline $FEAT --test demo_${P}_$N >> $LOG 2>&1; clean_demo=$?
git apply $M/m$N.diff || { echo "patch does not apply" >> $LOG; exit 2; }
echo "== suite with mutation" >> $LOG
mkdir -p /tmp/mut${ROUND}/_demos_$P; mv tests/demo_* /tmp/mut${ROUND}/_demos_$P/ 2>/dev/null
cargo test --workspace --no-fail-fast --offline 2>&1 | grep -E "^test result|^test .*FAILED|^error" >> $LOG
mv /tmp/mut${ROUND}/_demos_$P/* tests/ 2>/dev/null
failed=$(grep -E "^test [^ ]+ \.\.\. FAILED" $LOG | grep -v demo_ | sort -u | grep -vE "redundancy_matching_bug" | wc -l)
passed=$(grep -E "^test result" $LOG | grep -oE "[0-9]+ passed" | awk '{s+=$1} END {print s}')
echo "== demo with mutation" >> $LOG
cargo test --offline $FEAT --test demo_${P}_$N >> $LOG 2>&1; mut_demo=$?
RUSTFLAGS="--cfg slotted_egraphs_verif" cargo build --offline --lib >> $LOG 2>&1; guard_build=$?
git checkout -q -- src slotted-egraphs-derive
cp $M/m$N.diff $OUT/patch.diff; cp $M/demo_${P}_$N.rs $OUT/demo.rs
python3 - "$P" "$N" "$clean_demo" "$mut_demo" "$failed" "$guard_build" "$OUT" <<'PY'
import sys, json, re
P,N,clean,mut,failed,guard,out=sys.argv[1:]
import glob
readme=open(glob.glob(f"/tmp/mut*/{P}/MUTATIONS/README.md")[-1]).read()
meta={"id":out.rstrip("/").split("/")[-1],"breaks_property":P,"source":"independent sub-agent given only the property text and a scratch worktree",
 "confirmed":{"demo_passes_without_change":clean=="0","demo_fails_with_change":mut!="0","new_suite_failures_with_change":int(failed),"compiles_with_guard":guard=="0"},
 "what_i_ran":["cargo test --offline --test demo (clean tree)","git apply patch; cargo test --workspace --no-fail-fast --offline","cargo test --offline --test demo (with change)","RUSTFLAGS=--cfg slotted_egraphs_verif cargo build --offline --lib"],
 "needs_to_manifest":"see readme_excerpt","readme_excerpt":readme[:6000]}
json.dump(meta,open(out+"/meta.json","w"),indent=1)
print(meta["id"],meta["confirmed"])
PY
