#!/usr/bin/env python3
"""Sensitivity catalogue: deliberate property-breaking edits (DESIGN.md section 7), each applied to
/repo's working tree, checked with the quick command of the intended property, and reverted.
Unlike /verif/seeded (changes written by independent sub-agents, confirmed to keep the repository's
own tests green) these edits are written by the framework's author and need not pass the suite.

usage: sensitivity.py [name-substring ...]      writes /verif/sensitivity.md
"""
import subprocess, sys, os, time

REPO = "/repo"
# (name, property checks to run, file, old text, new text)
EDITS = [
 ("C01-eq-ignores-group", ["C01"], "src/egraph/mod.rs",
  "        self.classes[&id].group.contains(&perm)\n    }",
  "        let _ = perm;\n        true\n    }"),
 ("C01-shrink-drops-one-slot-too-many", ["C01", "C08"], "src/egraph/union.rs",
  "        let cap = &l.slots() & &r.slots();\n\n        if l.slots() != cap {",
  "        let mut cap = &l.slots() & &r.slots();\n        if cap.len() >= 2 && l.slots() != cap {\n            let d = *cap.iter().next().unwrap();\n            cap.remove(&d);\n        }\n\n        if l.slots() != cap {"),
 ("C02-touched-class-noop", ["C02"], "src/egraph/rebuild.rs",
  "        for sh in &self.classes[&i].usages {\n            let v = self.pending.entry(sh.clone()).or_insert(pending_ty);\n            *v = v.merge(pending_ty);\n        }",
  "        let _ = (i, pending_ty);"),
 ("C02-no-self-symmetries", ["C02"], "src/egraph/rebuild.rs",
  "        self.determine_self_symmetries(src_id);\n    }\n\n    fn update_analysis",
  "        let _ = src_id;\n    }\n\n    fn update_analysis"),
 ("C02-rebuild-stops-after-first", ["C02", "C08"], "src/egraph/rebuild.rs",
  "            self.handle_pending(sh, pending_ty);\n\n            if CHECKS {\n                self.check();\n            }\n        }",
  "            self.handle_pending(sh, pending_ty);\n\n            if CHECKS {\n                self.check();\n            }\n            if self.pending.len() > 3 {\n                self.pending.clear();\n            }\n        }"),
 ("C03-final-subst-no-fresh", ["C03", "C04"], "src/rewrite/ematch.rs",
  "                slotmap.insert(s, Slot::fresh());",
  "                slotmap.insert(s, s);"),
 ("C03-term-subst-compares-ids-only", ["C03"], "src/rewrite/subst_method.rs",
  "    if app_id == *x {",
  "    if app_id.id == x.id {"),
 ("C03-refresh-private-noop", ["C03", "C09", "C08"], "src/lang.rs",
  "        let fresh = SlotMap::bijection_from_fresh_to(&prv).inverse();\n        for x in c.private_slot_occurrences_mut() {\n            *x = fresh[*x];\n        }\n        c\n    }\n\n    #[doc(hidden)]\n    fn refresh_slots",
  "        let _ = prv;\n        c\n    }\n\n    #[doc(hidden)]\n    fn refresh_slots"),
 ("C04-only-first-variant", ["C04"], "src/rewrite/ematch.rs",
  "        out.extend(acc);\n    }\n}",
  "        out.extend(acc);\n        break;\n    }\n}"),
 ("C04-second-occurrence-syntactic", ["C04"], "src/rewrite/ematch.rs",
  "                if !eg.eq(&i, j) {",
  "                if &i != j {"),
 ("C04-skip-big-classes", ["C04"], "src/rewrite/ematch.rs",
  "    for i in eg.ids() {\n        let i = eg.mk_sem_identity_applied_id(i);",
  "    for i in eg.ids() {\n        if eg.enodes(i).len() > 2 {\n            continue;\n        }\n        let i = eg.mk_sem_identity_applied_id(i);"),
 ("C05-no-bijection-test", ["C05"], "src/rewrite/ematch.rs",
  "    map.insert(k, v);\n    map.is_bijection()",
  "    map.insert(k, v);\n    true"),
 ("C05-unify-skips-eq", ["C05"], "src/rewrite/multipat.rs",
  "        if eg.eq(x, y) {\n            vec![st]\n        } else {\n            Vec::new()\n        }",
  "        let _ = eg;\n        vec![st]"),
 ("C06-heap-order-reversed", ["C06"], "src/extract/with_ord.rs",
  "        other.1.partial_cmp(&self.1)",
  "        self.1.partial_cmp(&other.1)"),
 ("C06-later-node-overwrites", ["C06"], "src/extract/mod.rs",
  "            if map.contains_key(&i.id) {\n                continue;\n            }\n            map.insert",
  "            map.insert"),
 ("C07-compose-order", ["C07"], "src/explain/wrapper/perm.rs",
  "let prf = prove_transitivity(other.proof.clone(), self.proof.clone(), &self.reg);",
  "let prf = prove_transitivity(self.proof.clone(), other.proof.clone(), &self.reg);"),
 ("C07-perm-direction-reverted", ["C07"], "src/egraph/union.rs",
  "            let perm = r.m.compose(&l.m.inverse());",
  "            let perm = l.m.compose(&r.m.inverse());"),
 ("C08-compression-uncomposed", ["C08", "C13", "C01"], "src/egraph/find.rs",
  "        map[i.0] = new.clone();\n        new",
  "        map[i.0] = entry_to_leader.clone();\n        new"),
 ("C08-remove-forgets-usages", ["C08"], "src/egraph/add.rs",
  "        for ref_id in sh.ids() {\n            let usages = &mut self.classes.get_mut(&ref_id).unwrap().usages;\n            usages.remove(&sh);\n        }",
  ""),
 ("C09-lookup-keeps-redundant-slots", ["C09", "C08"], "src/egraph/add.rs",
  "        let out = out.iter().filter(|(x, _)| c.slots.contains(x)).collect();",
  "        let out: SlotMap = out.iter().collect();"),
 ("C09-bind-shape-keeps-bound-slot", ["C09", "C02"], "src/lang.rs",
  "        self.elem.weak_shape_impl(m);\n        m.0.remove(s);",
  "        self.elem.weak_shape_impl(m);\n        let _ = s;"),
 ("C10-contains-no-inverse", ["C10"], "src/group/mod.rs",
  "                n.g.contains(&p.compose(&part.inverse().to_slotmap()))",
  "                n.g.contains(&p.compose(&part.to_slotmap()))"),
 ("C10-add-set-forgets-old-generators", ["C10"], "src/group/mod.rs",
  "            *self = Group::new(&self.identity, &self.generators() | &perms);",
  "            *self = Group::new(&self.identity, perms);"),
 ("C11-shape-min-by-raw-slot-names", ["C11", "C09", "C02"], "src/egraph/mod.rs",
  "            .min_by_key(|pn| pn.weak_shape().0.elem.all_slot_occurrences())",
  "            .min_by_key(|pn| pn.elem.all_slot_occurrences())"),
 ("C12-move-to-drops-generators", ["C12", "C02"], "src/egraph/union.rs",
  "        if self.classes.get_mut(&to.id).unwrap().group.add_set(set) {",
  "        let _ = set;\n        if false {"),
 ("C12-moved-nodes-not-requeued", ["C12", "C02", "C08"], "src/egraph/union.rs",
  "            self.raw_add_to_class(to.id, (sh.clone(), new_bij), src_id);\n            self.pending.insert(sh, PendingType::Full);",
  "            self.raw_add_to_class(to.id, (sh.clone(), new_bij), src_id);"),
 ("C13-progress-counts-dead-classes", ["C13", "C15"], "src/rewrite/mod.rs",
  "            number_of_live_classes: ids.len(),",
  "            number_of_live_classes: self.classes.len() + ids.len() % 2,"),
 ("C14-parents-not-requeued", ["C14"], "src/egraph/rebuild.rs",
  "        if new != old {\n            self.modify_queue.push(i);\n            self.touched_class(i, PendingType::OnlyAnalysis);\n        }",
  "        if new != old {\n            self.modify_queue.push(i);\n        }"),
 ("C14-move-to-keeps-old-data", ["C14"], "src/egraph/union.rs",
  "            *analysis_to = new_analysis_to;\n",
  "            let _ = new_analysis_to;\n"),
 ("C15-progress-ignores-symmetries", ["C15"], "src/rewrite/mod.rs",
  "            sum_of_symmetries: ids.iter().map(|x| self.classes[x].group.count()).sum(),",
  "            sum_of_symmetries: 0,"),
 ("C15-node-limit-uses-iter-limit", ["C15"], "src/run/runner.rs",
  "        } else if eg.total_number_of_nodes() > self.node_limit {",
  "        } else if eg.total_number_of_nodes() > self.iter_limit {"),
 ("C15-saturation-before-hooks", ["C15"], "src/run/runner.rs",
  "        if !progress {\n            result = result.and_then(|_| Err(StopReason::Saturated));\n        }",
  "        if !progress {\n            result = Err(StopReason::Saturated);\n        }"),
 ("C17-named-f-does-not-bump", ["C17"], "src/slot.rs",
  "                    if tab.fresh_idx <= out {",
  "                    if false && tab.fresh_idx <= out {"),
 ("C17-display-divides-wrongly", ["C17", "C20"], "src/slot.rs",
  "            1 => write!(f, \"$f{}\", (u - 1) / 4),",
  "            1 => write!(f, \"$f{}\", (u - 1) / 8),"),
 ("C20-enodes-in-random-order", ["C20"], "src/egraph/mod.rs",
  "        self.classes[&i]\n            .nodes\n            .iter()\n            .map(|(x, psn)| x.apply_slotmap(&psn.elem))\n            .collect()",
  "        let v: std::collections::HashSet<L> = self.classes[&i]\n            .nodes\n            .iter()\n            .map(|(x, psn)| x.apply_slotmap(&psn.elem))\n            .collect();\n        v.into_iter().collect()"),
]


def sh(cmd, **kw):
    return subprocess.run(cmd, shell=True, stdout=subprocess.PIPE, stderr=subprocess.STDOUT, text=True, **kw)


def main():
    sel = sys.argv[1:]
    if sh("git -C /repo status --porcelain -- src slotted-egraphs-derive").stdout.strip():
        print("repo dirty"); sys.exit(2)
    rows = []
    for (name, props, f, old, new) in EDITS:
        if sel and not any(s in name for s in sel):
            continue
        path = os.path.join(REPO, f)
        src = open(path).read()
        if src.count(old) != 1:
            rows.append((name, "EDIT DOES NOT APPLY (%d matches)" % src.count(old), ""))
            print(rows[-1]); continue
        open(path, "w").write(src.replace(old, new))
        try:
            b = sh("cd /repo && RUSTFLAGS='--cfg slotted_egraphs_verif' cargo build --offline --lib 2>&1 | grep -E '^error' | head -3")
            if b.stdout.strip():
                rows.append((name, "DOES NOT COMPILE", b.stdout.strip()[:100])); print(rows[-1]); continue
            res = []
            for p in props:
                t0 = time.time()
                r = sh(f"cd /verif && timeout 1500 ./check {p} quick")
                line = [l for l in r.stdout.splitlines() if l.startswith("violation:")]
                if r.returncode == 1 and "VIOLATION property=" in r.stdout:
                    res.append(f"{p}: CAUGHT in {time.time()-t0:.0f}s ({line[0][11:120] if line else ''})")
                elif r.returncode == 0:
                    res.append(f"{p}: missed")
                else:
                    res.append(f"{p}: ERROR exit {r.returncode}")
            rows.append((name, "; ".join(res), "")); print(rows[-1], flush=True)
        finally:
            open(path, "w").write(src)
            sh("cd /verif && git checkout -- evidence; git clean -fdq replays")
    with open("/verif/sensitivity.md", "a" if sel else "w") as out:
        if not sel:
            out.write("# Sensitivity catalogue (author's deliberate edits; see sensitivity.py)\n\n| edit | result |\n|---|---|\n")
        for r in rows:
            out.write(f"| {r[0]} | {r[1]} {r[2]} |\n")


main()
